"""Property oracles over IMPLEMENTATION traces (observations only).

Each oracle restates one property over what the real API calls returned, without using the
L1 model, so it applies to the implementation's trace even when model and implementation
disagree.  They are used (a) on every run, so a property that is false of model and
implementation alike cannot slip through on agreement alone, and (b) as the failing-input
search after a proof obligation or the correspondence broke.

A hit is a dict: {property, seq, line, op, what, class}.  `class` identifies the call-site /
history shape (used to match entries of known-findings.txt).
"""
import re
from collections import defaultdict


class Seq:
    def __init__(self, header, cfg):
        self.header = header
        self.cfg = cfg
        self.lines = []  # (lineno, op_tokens, obs, summary, raw_op)
        self.queries = {}   # name -> list of parameter descriptors
        self.info = {}      # lineno of an op line -> implementation-side info line that followed it


def parse_trace(path):
    cfg = {}
    archs = []
    queries = {}
    seqs = []
    cur = None
    with open(path, errors="replace") as f:
        for no, line in enumerate(f, 1):
            line = line.rstrip("\n")
            if line.startswith("cfg "):
                cfg = dict(kv.split("=") for kv in line.split()[1:])
                archs = []
                queries = {}
                continue
            if line.startswith("arch "):
                t = line.split()
                archs.append({"idx": int(t[1]), "name": t[2], "id": int(t[3]),
                              "comps": [c.split(":") for c in t[4:]]})
                continue
            if line.startswith("query "):
                t = line.split()
                if len(t) >= 3:
                    queries[t[1]] = t[2].split(";")
                continue
            if line.startswith("seq "):
                cur = Seq(line, dict(cfg))
                cur.archs = archs
                cur.queries = queries
                seqs.append(cur)
                continue
            if line.startswith("#") and cur is not None and cur.lines and " => " not in line:
                cur.info[cur.lines[-1][0]] = line
                continue
            if " => " not in line or cur is None:
                continue
            op, rest = line.split(" => ", 1)
            if " # " in rest:
                obs, summ = rest.rsplit(" # ", 1)
            else:
                obs, summ = rest, ""
            cur.lines.append((no, op.split(), obs, summ, op))
    return seqs


def fields(obs):
    out = {}
    for tok in obs.split():
        if "=" in tok:
            k, v = tok.split("=", 1)
            out[k] = v
    return out


def hit(prop, seq, no, op, what, cls):
    return {"property": prop, "seq": seq.header, "line": no, "op": op, "what": what, "class": cls}


READONLY_OPS = ("probe", "conv", "cmp", "switch", "dump", "rows", "events", "clone", "end")
VIEW_FIELDS = ("tv", "tb", "twv", "twb", "yv", "yb")
ACCEPT_FIELDS_T = ["tc", "tr", "td", "tv", "tb", "twc", "twd", "twv", "twb"]
ACCEPT_FIELDS_Y = ["yc", "yr", "yd", "yv", "yb", "ywc", "ywd"]


def accepted(name, v):
    if v.startswith("!"):
        return False
    if name.endswith("c"):
        return v == "1"
    return v != "-"


class WorldTrack:
    """Abstract world state reconstructed from observations only."""

    def __init__(self, narch):
        self.live = {}        # handle words "k.v" -> (arch, row tokens list or None)
        self.issued = []      # every handle words ever returned by a create in this world lineage
        self.dead = set()
        self.caps = None
        self.created = defaultdict(list)
        self.destroyed = defaultdict(list)
        self.unknown_destroy = False
        self.var_live = {}    # create-variable -> words   (identity of the entity, not of its bits)
        self.var_dead = {}
        self.removals = defaultdict(int)   # archetype -> number of removals so far (C09)
        self.vals = {}        # component token -> value last written through ANY path (C02)
        self.vals_ok = True   # False once a write could not be attributed to an entity
        self.epoch = 0        # bumped by every op that may change the world (C13)
        self.clone_of = None  # (source world index, source epoch at clone time, token map)
        self.probes = {}      # var -> (epoch, fields) of the last probe in this world (C13)
        self.issued_before_clone = set()

    def by_token(self, toks):
        for words, (a, row) in self.live.items():
            if any(t in row for t in toks if t != "0"):
                return words
        return None

    def kill(self, words):
        a = self.live[words][0]
        del self.live[words]
        self.dead.add(words)
        self.destroyed[a].append(words)
        self.removals[a] += 1
        for v, wd in list(self.var_live.items()):
            if wd == words:
                del self.var_live[v]
                self.var_dead[v] = wd

    def clone(self, tokmap=None):
        w = WorldTrack(0)
        w.live = {k: (a, [tokmap.get(t, t) for t in row] if tokmap else list(row)) for k, (a, row) in self.live.items()}
        w.unknown_destroy = self.unknown_destroy
        w.var_live = dict(self.var_live)
        w.var_dead = dict(self.var_dead)
        w.removals = defaultdict(int, self.removals)
        w.issued = list(self.issued)
        w.issued_before_clone = set(self.issued)
        w.dead = set(self.dead)
        w.caps = self.caps
        w.created = defaultdict(list, {k: list(v) for k, v in self.created.items()})
        w.destroyed = defaultdict(list, {k: list(v) for k, v in self.destroyed.items()})
        w.vals = {(tokmap.get(t, t) if tokmap else t): v for t, v in self.vals.items()}
        w.vals_ok = self.vals_ok
        return w


def run_oracles(path, props=None):
    """Run all oracles over a trace file.  Returns (hits, stats)."""
    hits = []
    stats = defaultdict(int)
    for seq in parse_trace(path):
        hits.extend(check_seq(seq, stats))
    if props is not None:
        hits = [h for h in hits if h["property"] in props]
    return hits, dict(stats)


def parse_summary(s):
    out = []
    for p in s.split():
        m = re.match(r"(\d+)/(\d+)/(\d+)(!?)", p)
        if m:
            out.append((int(m.group(1)), int(m.group(2)), int(m.group(3)), m.group(4) == "!"))
    return out


def check_seq(seq, stats):
    hits = []
    archs = seq.archs
    ids = [a["id"] for a in archs]
    id2arch = {a["id"]: a["idx"] for a in archs}
    narch = len(archs)
    release = seq.cfg.get("debug") == "0"
    wrapping = seq.cfg.get("wrapping") == "1"
    events = seq.cfg.get("events") == "1"
    worlds = [WorldTrack(narch)]
    cur = 0
    hvars = {}    # var -> (kind 'e'/'d', words, static arch, forged_typed_mismatch)
    direct_issued = {}   # direct-handle var -> issue record (C09)
    wrapped = False   # a generation may have wrapped (only under wrapping_version + preset)
    prev_summary = None
    preset_used = False
    panic_seen = False
    for (no, op, obs, summ, raw) in seq.lines:
        w = worlds[cur] if cur < len(worlds) else None
        kind = op[0]
        summary = parse_summary(summ)
        if w is not None and kind not in READONLY_OPS:
            w.epoch += 1
        if "REGISTRY-ERROR" in obs:
            hits.append(hit("C04", seq, no, raw, obs[obs.index("REGISTRY-ERROR"):], "registry"))
            if panic_seen or "panic" in obs:
                hits.append(hit("C10", seq, no, raw, "after / during a panic a component value was dropped twice, dropped without having been created, or found corrupted: " + obs[obs.index("REGISTRY-ERROR"):][:200], "registry-after-panic"))
        if " AFTER-SKIPPED" in obs:
            hits.append(hit("C06", seq, no, raw, "the query ended without panicking, yet the statement that follows the query macro in the same function never ran: ending a query (EcsStep::Break included) must return control to the code after the macro, not leave the enclosing function", "break-leaves-caller"))
            if kind in ("iterd", "iterds"):
                hits.append(hit("C07", seq, no, raw, "ecs_iter_destroy! ended without panicking, yet the statement that follows the macro in the same function never ran", "break-leaves-caller"))
        if "ALLOC-ERROR" in obs:
            # harness/rt/src/alloc_check.rs: a realloc / dealloc of gecs used a layout that is not the
            # block's own (undefined behaviour by the GlobalAlloc contract): the capacity the storage
            # believes in no longer describes its arrays
            msg = obs[obs.index("ALLOC-ERROR"):][:260]
            for pr_ in ("C03", "C04", "C12", "C19"):
                hits.append(hit(pr_, seq, no, raw, "memory safety: " + msg, "alloc-layout"))
            if panic_seen or "panic" in obs:
                hits.append(hit("C10", seq, no, raw, "after / during a panic the storage released or resized one of its arrays with a layout that is not the array's own: " + msg, "alloc-layout-after-panic"))
        if obs.startswith("panic") or "end=panic" in obs:
            panic_seen = True
        if any(s[3] for s in summary):
            hits.append(hit("C12", seq, no, raw, "is_empty()/entities().len() disagree with len()", "len-self"))
        # ---- C12: len equals tracked live count; capacity monotone and >= len
        if w is not None and summary and kind not in ("switch", "new", "drop"):
            if not preset_used or True:
                for a, (ln, cap, ver, _) in enumerate(summary):
                    nlive = sum(1 for (aa, _) in w.live.values() if aa == a)
                    # len() equals the number of entities created and not yet destroyed; the tracked
                    # count is exact as long as every removal could be attributed to an entity
                    if not w.unknown_destroy and not (wrapping and preset_used) and kind not in ("create", "createw", "destroy", "iterd", "clone") and nlive != ln:
                        hits.append(hit("C12", seq, no, raw, f"len() of archetype {a} is {ln}, but {nlive} entities were created in it and not destroyed", "len-live-count"))
                    if ln > cap:
                        hits.append(hit("C12", seq, no, raw, f"len {ln} > capacity {cap} in archetype {a}", "len-gt-cap"))
                    if cap > (1 << 24):
                        hits.append(hit("C12", seq, no, raw, f"capacity {cap} beyond 2^24", "cap-limit"))
            if w.caps is not None and len(w.caps) == len(summary):
                for a, (ln, cap, ver, _) in enumerate(summary):
                    if cap < w.caps[a]:
                        hits.append(hit("C12", seq, no, raw, f"capacity of archetype {a} decreased {w.caps[a]} -> {cap}", "cap-decrease"))
            w.caps = [s[1] for s in summary]
        if kind == "new":
            worlds = [WorldTrack(narch)]
            cur = 0
            hvars = {}
            if summary:
                worlds[0].caps = [s[1] for s in summary]
                caps_req = [int(x) for x in op[1:]]
                if obs.startswith("ok"):
                    for a, (ln, cap, ver, _) in enumerate(summary):
                        if a < len(caps_req) and cap < caps_req[a]:
                            hits.append(hit("C12", seq, no, raw, "with_capacity(n) gave capacity < n", "with-capacity"))
            continue
        if kind in ("create", "createw"):
            a = int(op[2])
            var = op[3]
            before = prev_summary[a] if prev_summary and a < len(prev_summary) else None
            after = summary[a] if a < len(summary) else None
            if obs.startswith("e "):
                words = obs.split()[1]
                stats["creates"] += 1
                if not (wrapping and preset_used):
                    if words in w.issued:
                        hits.append(hit("C08", seq, no, raw, f"handle {words} issued twice in one world", "reissue"))
                        if w.clone_of is not None and words in w.issued_before_clone:
                            hits.append(hit("C13", seq, no, raw, f"create in a clone returned {words}, a handle its source had already issued before cloning: the clone did not take over the generation state of the source", "clone-reissues"))
                w.issued.append(words)
                w.dead.discard(words) if (wrapping and preset_used) else None
                k = int(words.split(".")[0])
                if (k & 0xff) != ids[a]:
                    hits.append(hit("C14", seq, no, raw, "archetype_id of created handle differs from ARCHETYPE_ID", "create-id"))
                for v, wd in list(w.var_live.items()):
                    if wd == words:          # the same bits issued again while believed alive: keep both views
                        pass
                w.live[words] = (a, [t.split(":")[0] for t in op[4:]])
                for t in op[4:]:
                    if ":" in t:
                        tk, vl = t.split(":", 1)
                        if tk != "0":
                            w.vals[tk] = vl
                w.var_live[var] = words
                hvars[var] = ("e", words, a, False)
                w.created[a].append(words)
                if before and after:
                    if after[0] != before[0] + 1:
                        hits.append(hit("C12", seq, no, raw, "len did not grow by one on create", "len-create"))
                    if kind == "createw" and after[1] != before[1]:
                        hits.append(hit("C12", seq, no, raw, "create_within_capacity changed capacity", "within-cap-changed"))
                    if kind == "createw" and not before[0] < before[1]:
                        hits.append(hit("C12", seq, no, raw, "create_within_capacity succeeded at len >= capacity", "within-full-ok"))
            elif obs.startswith("full"):
                stats["createw_full"] += 1
                if before and before[0] < before[1]:
                    hits.append(hit("C12", seq, no, raw, "create_within_capacity refused although len < capacity", "within-refused"))
                given = [t.replace(":", ".") for t in op[4:]]
                got = obs.split()[1].split(",") if len(obs.split()) > 1 else []
                zst = [len(c) > 2 and c[2] == "z" for c in archs[a]["comps"]]
                given = ["0.0" if z else g for g, z in zip(given, zst)]
                if got != given:
                    hits.append(hit("C04", seq, no, raw, "failed create_within_capacity did not return its argument", "within-return"))
                if before and after and before != after:
                    hits.append(hit("C12", seq, no, raw, "failed create_within_capacity changed len/capacity/version", "within-failed-changed"))
            elif obs.startswith("panic CapacityOverflow"):
                if before and before[0] < (1 << 24):
                    hits.append(hit("C12", seq, no, raw, "create panicked below the 2^24 limit", "create-panic"))
        elif kind == "destroy":
            var = op[3]
            hv = hvars.get(var)
            tainted = wrapping and preset_used
            if obs.startswith("panic Injected") and "drops=" in obs:
                # a component's Drop panicked while the destroyed tuple was being dropped: the
                # entity had already been removed (all its components are in the drop list)
                obs = "some" + obs[len("panic Injected"):]
            # C19: what `wrapping_version` documents, and nothing else: at the 2^32 boundary the
            # destroy wraps WITH the feature and panics (changing nothing) WITHOUT it
            if hv and hv[0] == "e" and not hv[3] and w is not None and hv[1] in w.live and var not in w.var_dead:
                pcls = obs.split()[1] if obs.startswith("panic") and len(obs.split()) > 1 else None
                if wrapping and pcls in ("Other", "SlotOverflow", "ArchOverflow", "IndexOob"):
                    hits.append(hit("C19", seq, no, raw, f"with wrapping_version enabled, destroying the live entity {hv[1]} panicked ({pcls}); the feature documents wraparound in place of the generation-overflow panic, in every build profile", "wrapping-destroy-panics"))
                if not wrapping and obs.startswith("some") and hv[1].endswith(".4294967295") and w.live[hv[1]][0] == hv[2] and not op[4:]:
                    hits.append(hit("C19", seq, no, raw, f"without wrapping_version, destroying {hv[1]} (generation 2^32-1) succeeded instead of panicking: the generation wrapped although the feature is off", "overflow-wrapped-without-feature"))
                    hits.append(hit("C08", seq, no, raw, f"without wrapping_version, destroying {hv[1]} (generation 2^32-1) succeeded instead of panicking: the position's generation wrapped, so the handles issued for it from now on repeat, word for word, the handles it issued from generation 1 on (without the feature the removal must panic and change nothing, which is what keeps handles unique)", "overflow-wrapped-without-feature"))
            at_arch = next((int(t_[1:]) for t_ in op[4:] if t_.startswith("@")), None)
            if hv and hv[0] == "d" and at_arch is not None and op[2] == "y" and obs.startswith("some") and hv[1]:
                did_ = int(hv[1].split(".")[0]) & 0xff
                if at_arch < len(ids) and ids[at_arch] != did_:
                    hits.append(hit("C03", seq, no, raw, f"archetype {at_arch} (id {ids[at_arch]}) accepted the dynamically typed direct handle {hv[1]} of archetype id {did_} and destroyed one of its own entities", "foreign-direct-destroy"))
                    hits.append(hit("C09", seq, no, raw, f"the direct handle {hv[1]} (archetype id {did_}) designated an entity of archetype {at_arch}: destroy through it removed an unrelated entity", "foreign-direct-destroy"))
            if hv is None and obs.startswith("some"):
                hv = ("d", "?", None, False)   # a direct handle saved from a query closure
            if hv and obs.startswith("some"):
                stats["destroys"] += 1
                # identify the destroyed entity from the component tokens handed back / dropped
                toks = []
                parts = obs.split()
                if len(parts) > 1 and "=" not in parts[1]:
                    toks = [x.split(".")[0] for x in parts[1].split(",")]
                    check_vals(seq, no, raw, w, [tuple(x.split(".", 1)) for x in parts[1].split(",") if "." in x], hits, "the tuple returned by destroy")
                for pt in parts[1:]:
                    if pt.startswith("drops="):
                        toks += pt[6:].split(",")
                victim = w.by_token(toks)
                if hv[0] == "e":
                    words = hv[1]
                    if not tainted and not hv[3]:
                        if words not in w.live:
                            if words in w.issued:
                                hits.append(hit("C01", seq, no, raw, f"destroy accepted stale handle {words}", "stale-destroy"))
                            else:
                                hits.append(hit("C03", seq, no, raw, f"destroy accepted a handle value {words} that is not a live entity's", "forged-destroy"))
                        elif victim is not None and victim != words:
                            hits.append(hit("C01", seq, no, raw, f"destroy by {words} removed entity {victim}", "wrong-entity"))
                    elif hv[3] and victim is not None and victim != words:
                        hits.append(hit("C03", seq, no, raw,
                                        f"typed key built by from_any_unchecked with a foreign id destroyed {victim} although its words {words} are not that entity's",
                                        "unchecked-conversion-release" if release else "unchecked-conversion-debug"))
                if victim is not None:
                    w.kill(victim)
                elif hv[0] == "e" and hv[1] in w.live:
                    w.kill(hv[1])
                else:
                    w.unknown_destroy = True
            elif hv and obs.startswith("none") and hv[0] == "e" and not w.unknown_destroy and not tainted:
                if hv[1] in w.live and not hv[3] and not op[4:]:
                    a_live = w.live[hv[1]][0]
                    if hv[2] == a_live:
                        hits.append(hit("C01", seq, no, raw, f"destroy rejected live handle {hv[1]}", "live-rejected"))
        elif kind == "write":
            # write <path> <var> <col> <val>
            if obs.startswith("ok") and w is not None:
                hv = hvars.get(op[2])
                col = int(op[3])
                tok = None
                if hv and hv[0] == "e" and not hv[3] and hv[1] in w.live and op[2] not in w.var_dead:
                    row = w.live[hv[1]][1]
                    tok = row[col] if col < len(row) else None
                else:
                    di = direct_issued.get(op[2])
                    if di is not None and di["world"] == cur and w.removals[di["arch"]] == di["removals"] and col < len(di["toks"]):
                        tok = di["toks"][col]
                if tok is None:
                    w.vals_ok = False
                elif tok != "0":
                    w.vals[tok] = op[4]
        elif kind == "rows":
            if w is not None and obs.startswith("rows"):
                body = obs[5:]
                pm = re.search(r" paths=(\S+)", obs)
                if pm:
                    body = obs[5:obs.index(" paths=")]
                    labels_ = pm.group(1)[5:].split("+") if pm.group(1).startswith("DIFF:") else []
                    laws_ = [l_ for l_ in labels_ if l_.startswith("law:")]
                    if laws_:
                        hits.append(hit("C06", seq, no, raw, f"Archetype::iter() / iter_mut() of archetype {op[1]}, driven through Iterator adapters, do not present every live entity exactly once with its own data (compared with a plain `for` pass over the same iterator): {', '.join(l_[4:] for l_ in laws_)}", "iter-adapter"))
                    vlaws_ = [l_ for l_ in laws_ if l_.rsplit(".", 1)[-1] in ("last", "nth", "skip", "step_by")]
                    if vlaws_:
                        # C02 names Archetype::iter / iter_mut as read paths: an item reached through an adapter that
                        # differs from the item of a plain pass pairs a handle with values that are not its own
                        hits.append(hit("C02", seq, no, raw, f"Archetype::iter() / iter_mut() of archetype {op[1]}, driven through Iterator adapters, yield items (handle + component values) that differ from the items of a plain `for` pass over the same iterator — a handle paired with values that are not its own: {', '.join(l_[4:] for l_ in vlaws_)}", "iter-adapter-values"))
                    if pm.group(1) != "ok" and len(laws_) < len(labels_):
                        hits.append(hit("C02", seq, no, raw, f"the access paths of archetype {op[1]} disagree with each other: {pm.group(1)}", "paths-disagree"))
                        if "-len" in pm.group(1):
                            hits.append(hit("C06", seq, no, raw, f"a slice accessor of archetype {op[1]} does not present exactly len() items: {pm.group(1)}", "slice-len"))
                        if any(("iter" in l_ or "entities" in l_) and not l_.startswith("law:") for l_ in labels_):
                            hits.append(hit("C06", seq, no, raw, f"Archetype::iter / iter_mut / entities() of archetype {op[1]} do not present each entity with its own handle and components: {pm.group(1)}", "iter-paths-disagree"))
                for r in body.split("|"):
                    if ":" in r:
                        check_vals(seq, no, raw, w, view_pairs("@" + r), hits, "get_slice / iter / view of the archetype")
        elif kind == "nest":
            hits.extend(check_nest(seq, no, op, obs, raw, w, archs, id2arch, hvars))
        elif kind == "conv":
            # C14 / C15: what the generated Select* conversions report is the handle's archetype id
            mi = re.search(r"\bid=(\d+)", obs)
            ms = re.search(r"\bsa=(\S+)/(\S+)", obs)
            if mi and ms:
                for v_ in (ms.group(1), ms.group(2)):
                    if not v_.startswith("err") and v_ != mi.group(1):
                        hits.append(hit("C14", seq, no, raw, f"SelectArchetype::archetype_id() reports {v_} for a handle whose archetype_id() is {mi.group(1)}", "select-archetype-id"))
                        hits.append(hit("C15", seq, no, raw, f"SelectArchetype reports id {v_} for the archetype whose ARCHETYPE_ID is {mi.group(1)}", "select-archetype-id"))
                        break
                declared = int(mi.group(1)) in id2arch
                if declared and (ms.group(1).startswith("err") or ms.group(2).startswith("err")):
                    hits.append(hit("C14", seq, no, raw, f"SelectArchetype::try_from fails for the declared archetype id {mi.group(1)}", "select-archetype-err"))
            mtf = re.search(r"\btf=\[(.*?)\]", obs)
            if mi and mtf:
                # try_from / from_any succeed exactly for the archetype whose id the handle carries,
                # and fail as documented (Err / panic) for every other archetype, in every build
                for a_, ent_ in enumerate(mtf.group(1).split()):
                    if a_ >= len(ids) or "/" not in ent_:
                        continue
                    tfv, fav = ent_.split("/", 1)
                    same = ids[a_] == int(mi.group(1))
                    if same and not (tfv.startswith("ok:") and fav.startswith("ok:")):
                        hits.append(hit("C14", seq, no, raw, f"conversion of a handle with archetype id {mi.group(1)} into its own archetype {a_} failed: try_from={tfv[:30]} from_any={fav[:30]}", "typed-conversion"))
                    if not same and (not tfv.startswith("err") or not fav.startswith("!")):
                        hits.append(hit("C14", seq, no, raw, f"conversion of a handle with archetype id {mi.group(1)} into archetype {a_} (id {ids[a_]}) did not fail as documented: try_from={tfv[:40]} from_any={fav[:40]}", "typed-conversion"))
                    elif not same and tfv != "err:InvalidEntityType":
                        hits.append(hit("C14", seq, no, raw, f"try_from of a handle with archetype id {mi.group(1)} into archetype {a_} (id {ids[a_]}) fails with {tfv[4:]}; the documented error for a handle of the wrong type is EcsError::InvalidEntityType (InvalidRawEntity is what from_raw reports for a zero generation)", "error-variant"))
            msel = re.search(r"\bsel=(\S+)", obs)
            if mi and msel and msel.group(1).startswith("err") and msel.group(1) != "err:InvalidEntityType":
                hits.append(hit("C14", seq, no, raw, f"SelectEntity / SelectEntityDirect::try_from fails with {msel.group(1)[4:]}; the documented error for an undeclared archetype id is EcsError::InvalidEntityType", "error-variant"))
            if mi and ms and any(v_.startswith("err") and v_ != "err:InvalidEntityType" for v_ in (ms.group(1), ms.group(2))):
                hits.append(hit("C14", seq, no, raw, f"SelectArchetype::try_from fails with {ms.group(1)} / {ms.group(2)}; the documented error is EcsError::InvalidEntityType", "error-variant"))
            if mi and msel and not msel.group(1).startswith("err"):
                a_ = int(msel.group(1).split(":")[0])
                if a_ < len(ids) and ids[a_] != int(mi.group(1)):
                    hits.append(hit("C14", seq, no, raw, f"SelectEntity picked archetype {a_} (id {ids[a_]}) for a handle with archetype id {mi.group(1)}", "select-entity"))
        elif kind == "cmp":
            m = re.match(r"k=(\w) a=(\S+) b=(\S+) any=(\S+) t=\[(.*?)\]", obs)
            if m:
                exp = "101" if m.group(2) == m.group(3) else "01-"
                what = "equal handles must compare equal and hash equally" if exp == "101" else "handles that differ in a word are handles of distinct entities and must compare unequal"
                if m.group(4) != exp:
                    hits.append(hit("C14", seq, no, raw, f"{m.group(2)} vs {m.group(3)} (dynamically typed): ==/!=/hash gave {m.group(4)}, expected {exp}: {what}", "eq-hash"))
                ia = int(m.group(2).split(".")[0]) & 0xff
                ib = int(m.group(3).split(".")[0]) & 0xff
                for a, tv_ in enumerate(m.group(5).split()):
                    if a >= len(ids):
                        break
                    both = ia == ids[a] and ib == ids[a]
                    if both and tv_ != exp:
                        hits.append(hit("C14", seq, no, raw, f"{m.group(2)} vs {m.group(3)} typed for archetype {a}: ==/!=/hash gave {tv_}, expected {exp}: {what}", "eq-hash-typed"))
                    if not both and tv_ != "-":
                        hits.append(hit("C14", seq, no, raw, f"try_from into archetype {a} succeeded for a handle whose archetype id differs", "try-from"))
        elif kind == "todirect":
            if obs.startswith("d "):
                src = hvars.get(op[3])
                dw = obs.split()[1]
                at0_ = next((int(t_[1:]) for t_ in op[5:] if t_.startswith("@")), None)
                if at0_ is not None and op[1] == "a" and op[2] == "y" and src and src[0] in ("e", "d") and src[1] and "." in src[1] and at0_ < len(ids):
                    kid_ = int(src[1].split(".")[0]) & 0xff
                    if ids[at0_] != kid_:
                        hits.append(hit("C03", seq, no, raw, f"archetype {at0_} (id {ids[at0_]}) accepted the dynamically typed key {src[1]} of archetype id {kid_} in its archetype-level to_direct and returned {dw}", "other-arch-accepted"))
                        hits.append(hit("C01", seq, no, raw, f"the handle {src[1]} (archetype id {kid_}) was resolved by archetype {at0_} (id {ids[at0_]}) to one of ITS entities ({dw}): a lookup returns the handle's own entity or nothing", "wrong-entity"))
                        hits.append(hit("C14", seq, no, raw, f"to_direct converted the handle {src[1]} of archetype id {kid_} into the direct handle {dw} of archetype id {ids[at0_]}: conversions never change which archetype a handle belongs to", "to-direct-foreign"))
                # the harness types the new variable like its source (or `@arch`), except for the
                # world-level dynamically typed call, whose result is typed by its own id
                did_ = int(dw.split(".")[0]) & 0xff
                at_ = next((int(t_[1:]) for t_ in op[5:] if t_.startswith("@")), None)
                st_ = at_ if at_ is not None else (src[2] if src else None)
                if op[1] == "w" and op[2] == "y":
                    st_ = id2arch.get(did_, st_)
                if (src is None or src[0] == "u") and not (op[1] == "w" and op[2] == "y") and at_ is None:
                    hvars[op[4]] = ("u", None, None, False)      # typing of the source unknown to the oracle
                else:
                    hvars[op[4]] = ("d", dw, st_, st_ is not None and st_ < len(ids) and ids[st_] != did_)
                da = id2arch.get(int(dw.split(".")[0]) & 0xff)
                # C09: remember for which entity (by its component tokens) and at which removal count of
                # its archetype the handle was issued -- only when the source is an entity variable whose
                # entity is alive here (a direct source or a forged source carries no identity)
                if src and src[0] == "e" and not src[3] and op[3] in w.var_live and da is not None and w.var_live[op[3]] in w.live:
                    direct_issued[op[4]] = {"world": cur, "arch": da, "toks": list(w.live[w.var_live[op[3]]][1]), "removals": w.removals[da], "words": dw}
        elif kind == "forge":
            if obs.startswith("ok"):
                if op[2] == "any":
                    words = f"{op[3]}.{op[4]}"
                    kid = int(op[3]) & 0xff
                    hvars[op[1]] = ("e", words, id2arch.get(kid, 0), kid not in id2arch)
                elif op[2] == "ent":
                    words = f"{op[4]}.{op[5]}"
                    b = int(op[3])
                    mismatch = (int(op[4]) & 0xff) != ids[b]
                    hvars[op[1]] = ("e", words, b, mismatch)
                elif op[2] == "dir":
                    src = hvars.get(op[4])
                    if src is None or src[0] == "u":
                        hvars[op[1]] = ("u", None, None, False)
                    elif src:
                        b = int(op[3])
                        mismatch = (int(src[1].split(".")[0]) & 0xff) != ids[b]
                        hvars[op[1]] = ("d", src[1], b, mismatch)
            if op[2] in ("any", "ent") and obs.startswith("err"):
                ver = op[4] if op[2] == "any" else op[5]
                if ver != "0":
                    hits.append(hit("C14", seq, no, raw, "from_raw rejected a non-zero generation", "from-raw"))
                elif obs.split()[0] != "err:InvalidRawEntity":
                    hits.append(hit("C14", seq, no, raw, f"from_raw with a zero generation fails with {obs.split()[0][4:]}; the documented error is EcsError::InvalidRawEntity", "error-variant"))
            if op[2] in ("any", "ent") and obs.startswith("ok"):
                ver = op[4] if op[2] == "any" else op[5]
                if ver == "0":
                    hits.append(hit("C14", seq, no, raw, "from_raw accepted a zero generation", "from-raw"))
        elif kind in ("wbcreate",):
            if obs.startswith("e "):
                words = obs.split()[1]
                kid = int(words.split(".")[0]) & 0xff
                hvars[op[2]] = ("e", words, id2arch.get(kid, 0), kid not in id2arch)
        elif kind == "wbdirect":
            if obs.startswith("d "):
                hvars[op[2]] = ("d", obs.split()[1], None, False)
        elif kind == "probe":
            hv = hvars.get(op[1])
            f = fields(obs)
            stats["probes"] += 1
            if hv and hv[0] in ("e", "d") and hv[1] and hv[1] != "?" and hv[2] is not None and "." in hv[1]:
                kid_ = int(hv[1].split(".")[0]) & 0xff
                oth_ = (hv[2] + 1) % narch
                if oth_ < len(ids) and ids[oth_] != kid_:
                    for nm_ in ("or", "od", "ov", "ob"):
                        v_ = f.get(nm_)
                        if v_ and accepted(nm_, v_):
                            path_ = {"or": "resolve", "od": "to_direct", "ov": "view", "ob": "borrow"}[nm_]
                            hits.append(hit("C03", seq, no, raw, f"archetype {oth_} (id {ids[oth_]}) accepted the dynamically typed key {hv[1]} of archetype id {kid_} in its archetype-level {path_}: {nm_}={v_[:60]}", "other-arch-accepted"))
                            hits.append(hit("C01", seq, no, raw, f"the handle {hv[1]} (archetype id {kid_}) was resolved by archetype {oth_} (id {ids[oth_]}) through {path_} to one of ITS entities ({nm_}={v_[:60]}): a lookup returns the handle's own entity or nothing", "wrong-entity"))
                            if hv[0] == "d":
                                hits.append(hit("C09", seq, no, raw, f"the direct handle {hv[1]} (archetype id {kid_}) was accepted by archetype {oth_} (id {ids[oth_]}) through its archetype-level {path_} and designates one of ITS entities ({nm_}={v_[:60]}): a direct handle never designates another entity than the one it was issued for", "foreign-direct-accepted"))
                            if nm_ == "od":
                                hits.append(hit("C14", seq, no, raw, f"to_direct converted the handle {hv[1]} of archetype id {kid_} into the direct handle {v_} of archetype id {ids[oth_]}: conversions never change which archetype a handle belongs to", "to-direct-foreign"))
                            break
            if w is not None:
                for name in VIEW_FIELDS:
                    v = f.get(name)
                    if v and accepted(name, v) and "@" in v:
                        check_vals(seq, no, raw, w, view_pairs(v), hits, f"{name} (view/borrow through a handle)")
                # C13: the same probe on a world and on its untouched clone
                w.probes[op[1]] = (w.epoch, f)
                if w.clone_of is not None and w.epoch == w.clone_of[3]:
                    si, sep, tokmap, _ = w.clone_of
                    src = worlds[si] if si < len(worlds) else None
                    if src is not None and src.epoch == sep:
                        rec = src.probes.get(op[1])
                        if rec and rec[0] == sep:
                            clone_compare(seq, no, raw, op[1], rec[1], f, tokmap, hits)
                            stats["clone_pairs"] += 1
                for ci, cw in enumerate(worlds):
                    if cw is not None and cw.clone_of is not None and cw.clone_of[0] == cur and cw.epoch == cw.clone_of[3] and w.epoch == cw.clone_of[1]:
                        rec = cw.probes.get(op[1])
                        if rec and rec[0] == cw.epoch:
                            clone_compare(seq, no, raw, op[1], f, rec[1], cw.clone_of[2], hits)
                            stats["clone_pairs"] += 1
            # C03/C09: a direct handle is (dense index, archetype generation): whoever accepts it
            # although index >= len reads outside the initialised range; although the generation
            # differs accepts a handle that died with a removal
            if hv and hv[0] == "d" and summary and w is not None:
                dk, dv = hv[1].split(".")
                did = int(dk) & 0xff
                didx = int(dk) >> 8
                for name in ACCEPT_FIELDS_T + ACCEPT_FIELDS_Y:
                    v = f.get(name)
                    if v is None or not accepted(name, v):
                        continue
                    typed = name.startswith("t")
                    if typed:
                        if hv[3] or (hv[2] is None and did not in id2arch):
                            continue     # typed key with a foreign id: F3 territory, judged below / known finding
                        a_ = hv[2] if hv[2] is not None else id2arch.get(did)
                    else:
                        a_ = id2arch.get(did)
                    if a_ is None or a_ >= len(summary):
                        if not typed:
                            hits.append(hit("C03", seq, no, raw, f"direct handle {hv[1]} with an undeclared archetype id is accepted by {name}", "direct-undeclared"))
                        continue
                    ln_, _, ver_, _ = summary[a_]
                    if didx >= ln_:
                        hits.append(hit("C03", seq, no, raw, f"direct handle {hv[1]} (dense index {didx}) is accepted by {name}={v[:50]} although archetype {a_} holds only {ln_} entities: the access is outside the initialised range", "direct-out-of-range"))
                        break
                    if int(dv) != ver_:
                        hits.append(hit("C03", seq, no, raw, f"direct handle {hv[1]} is accepted by {name} although archetype {a_} is at generation {ver_}: it matches by accident", "direct-generation-mismatch"))
                        break
            di = direct_issued.get(op[1])
            if di is not None and w is not None and not w.unknown_destroy and not (wrapping and preset_used):
                # checked in the world the handle was issued in (clones are covered by C13's stream)
                if di["world"] == cur:
                    removed_since = w.removals[di["arch"]] > di["removals"]
                    acc_fields = [n for n in ACCEPT_FIELDS_T + ACCEPT_FIELDS_Y if n in f and accepted(n, f[n])]
                    rej_fields = [n for n in ACCEPT_FIELDS_T + ACCEPT_FIELDS_Y if n in f and not f[n].startswith("!") and not accepted(n, f[n])]
                    if removed_since and acc_fields:
                        hits.append(hit("C09", seq, no, raw, f"direct handle {di['words']} is still accepted ({acc_fields[0]}={f[acc_fields[0]][:50]}) after a removal from its archetype", "direct-survives-removal"))
                        if w.by_token([t_ for t_ in di["toks"] if t_ != "0"]) is None and any(t_ != "0" for t_ in di["toks"]):
                            hits.append(hit("C01", seq, no, raw, f"the entity the direct handle {di['words']} was obtained for has been destroyed, yet the handle is accepted by {acc_fields[0]}: a destroyed entity's handle must be rejected by every lookup path, whatever its kind", "stale-direct-accepted"))
                    if not removed_since and rej_fields:
                        hits.append(hit("C09", seq, no, raw, f"direct handle {di['words']} is rejected by {rej_fields[0]} although its archetype saw no removal since it was issued", "direct-dies-early"))
                        vrej_ = [n_ for n_ in rej_fields if n_[-1] in ("v", "b")]
                        if vrej_ and w.by_token([t_ for t_ in di["toks"] if t_ != "0"]) is not None:
                            hits.append(hit("C02", seq, no, raw, f"the entity the direct handle {di['words']} was issued for is alive and nothing was removed from its archetype since, yet {vrej_[0]} (view / borrow through that handle) returns nothing instead of the entity's own components", "direct-path-refused"))
                        if di.get("from_loop") == "iterd":
                            hits.append(hit("C07", seq, no, raw, f"the direct handle {di['words']} that ecs_iter_destroy! handed to its closure does not designate the entity being visited: it is rejected by {rej_fields[0]} although nothing was removed afterwards", "loop-direct-stale"))
                    if not removed_since:
                        zst = [len(c) > 2 and c[2] == "z" for c in archs[di["arch"]]["comps"]]
                        exp = ["0" if z else e for e, z in zip(di["toks"], zst)]
                        for n in acc_fields:
                            v = f[n]
                            if n[-1] in ("v", "b") and ":" in v:
                                toks = [x.split(".")[0] for x in v.split(":", 1)[1].split(",")]
                                if toks != exp:
                                    hits.append(hit("C09", seq, no, raw, f"direct handle {di['words']} designates components {toks[:4]}, it was issued for the entity owning {exp[:4]}", "direct-wrong-entity"))
                                    hits.append(hit("C02", seq, no, raw, f"the direct handle {di['words']} obtained for an entity reads components {toks[:4]}; the entity owns {exp[:4]}", "direct-not-own-row"))
                                    hits.append(hit("C01", seq, no, raw, f"to_direct of a live handle returned {di['words']}, which designates another entity (components {toks[:4]} instead of {exp[:4]})", "todirect-wrong-entity"))
                                break
            own_ = (hv and hv[0] == "e" and not hv[3] and w is not None and hv[1] in w.issued) or (di is not None and w is not None and di["world"] == cur)
            if own_ and any(v_.startswith("!DebugAssert") for v_ in f.values()):
                nm_ = next(k_ for k_, v_ in f.items() if v_.startswith("!DebugAssert"))
                hits.append(hit("C19", seq, no, raw, f"a lookup ({nm_}) with a handle this world issued itself trips a debug assertion: debug and release builds differ (panic vs. an answer) where the build profile documents no difference", "debug-assert-on-issued-handle"))
            if hv and hv[0] == "e" and w is not None and not w.unknown_destroy:
                words, static, mismatch = hv[1], hv[2], hv[3]
                key_id = int(words.split(".")[0]) & 0xff
                alive = words in w.live
                if op[1] in w.var_dead and not (wrapping and preset_used):
                    # the entity this variable was created for has been destroyed: whatever now carries
                    # the same bits is ANOTHER entity, and accepting the old handle is the C01 violation
                    for name in ACCEPT_FIELDS_T + ACCEPT_FIELDS_Y:
                        v = f.get(name)
                        if v is not None and accepted(name, v) and not (name.startswith("t") and mismatch):
                            hits.append(hit("C01", seq, no, raw, f"handle {words} of a destroyed entity (variable {op[1]}) is accepted by {name}={v[:60]}", "stale-accepted"))
                            break
                    continue
                tainted = wrapping and preset_used
                for name in ACCEPT_FIELDS_T + ACCEPT_FIELDS_Y:
                    if name not in f or tainted:
                        continue
                    v = f[name]
                    if v.startswith("!"):
                        continue
                    acc = accepted(name, v)
                    typed = name.startswith("t")
                    if typed and mismatch:
                        # a typed key carrying a foreign archetype id (from_any_unchecked): whatever it
                        # reaches in the static archetype is not bit-identical to it
                        if acc:
                            hits.append(hit("C03", seq, no, raw,
                                            f"typed key built by from_any_unchecked with a foreign id ({words} used as a key of archetype {static}) is accepted: {name}={v}",
                                            "unchecked-conversion-release" if release else "unchecked-conversion-debug"))
                        continue
                    if typed or name in ("ywc", "ywd"):
                        expect = alive
                    else:
                        expect = alive and static is not None and ids[static] == key_id
                    if acc and not expect:
                        if words in w.issued:
                            hits.append(hit("C01", seq, no, raw, f"stale handle {words} accepted by {name}", "stale-accepted"))
                        else:
                            hits.append(hit("C03", seq, no, raw, f"forged value {words} accepted by {name} although not bit-identical to a live handle", "forged-accepted"))
                    if expect and not acc:
                        hits.append(hit("C01", seq, no, raw, f"live handle {words} rejected by {name}", "live-rejected"))
                    if acc and alive and name in ("td", "twd", "yd", "ywd") and "." in v:
                        # to_direct designates the position resolve reports for the same handle
                        tr_ = f.get("tr") if name.startswith("t") else f.get("yr")
                        if tr_ is not None and accepted("tr", tr_) and tr_.isdigit() and (int(v.split(".")[0]) >> 8) != int(tr_):
                            hits.append(hit("C01", seq, no, raw, f"{name} of the live handle {words} is {v} (dense index {int(v.split('.')[0]) >> 8}), but resolve places the entity at index {tr_}", "todirect-wrong-entity"))
                    if acc and alive and name[-1] in ("v", "b") and "@" in v:
                        ent = v.split("@")[0]
                        if ent != words:
                            hits.append(hit("C01", seq, no, raw, f"{name} of {words} designates {ent}", "wrong-entity"))
                            hits.append(hit("C02", seq, no, raw, f"{name} through handle {words} returns the row of {ent}, not the entity's own components", "not-own-row"))
                        toks = [x.split(".")[0] for x in v.split(":", 1)[1].split(",")] if ":" in v else []
                        exp = w.live[words][1]
                        zst = [len(c) > 2 and c[2] == "z" for c in archs[w.live[words][0]]["comps"]]
                        exp = ["0" if z else e for e, z in zip(exp, zst)]
                        if exp and toks != exp and ent == words:
                            hits.append(hit("C02", seq, no, raw, f"{name} of {words} returned components {toks}, the entity owns {exp}", "wrong-row"))
                if f.get("oc") == "1" and static is not None:
                    other = (static + 1) % narch
                    if ids[other] != key_id:
                        hits.append(hit("C03", seq, no, raw, "dynamic key accepted by an archetype with a different id", "other-arch-accepted"))
        elif kind == "clone":
            if obs.startswith("w") and w is not None:
                tokmap = {}
                for pt in obs.split():
                    if pt.startswith("map="):
                        for pr in pt[4:].split(","):
                            if ">" in pr:
                                a_, b_ = pr.split(">")
                                tokmap[a_] = b_
                nw = w.clone(tokmap)
                nw.clone_of = (cur, w.epoch, tokmap, nw.epoch)
                worlds.append(nw)
                stats["clones"] += 1
        elif kind == "switch":
            if obs.startswith("ok"):
                cur = int(op[1])
        elif kind == "drop":
            if len(op) > 1 and op[1].isdigit() and int(op[1]) < len(worlds) and (obs.startswith("ok") or obs.startswith("panic")):
                worlds[int(op[1])] = None
        elif kind == "iterds":
            # ecs_iter_destroy! driven by a plain EcsStep closure: Continue…, Break at call brk
            stats["iterd"] += 1
            if w is not None:
                bk = next((int(t_[4:]) for t_ in op[2:] if t_.startswith("brk=")), None)
                op2 = [op[0], op[1]] + [t_ for t_ in op[2:] if not t_.startswith("brk=")] + (["dec=" + "c" * bk + "b"] if bk is not None else [])
                query_values(seq, no, op, obs, raw, w, hits)
                hs_ = check_iterd(seq, no, op2, obs, raw, w, archs, ids)
                hits.extend(hs_)
                for h_ in hs_:
                    if h_["class"] == "no-stop":
                        hits.append(hit("C06", seq, no, raw, "EcsStep::Break returned from the closure of ecs_iter_destroy! did not end the query", "no-stop"))
        elif kind == "iterd":
            stats["iterd"] += 1
            if w is not None:
                query_values(seq, no, op, obs, raw, w, hits)
                hits.extend(check_iterd(seq, no, op, obs, raw, w, archs, ids))
        elif kind in ("iter", "iterb"):
            stats["iters"] += 1
            if w is not None:
                hits.extend(check_iter(seq, no, op, obs, raw, w, archs))
                query_values(seq, no, op, obs, raw, w, hits)
        elif kind in ("find", "findb"):
            if w is not None:
                query_values(seq, no, ["find", op[1]] + op[2:], obs, raw, w, hits)
        elif kind == "end":
            # C04: after every world has been dropped nothing may be left alive, unless a Clone/Drop
            # fault was injected in this sequence (leak-on-panic is not among the guarantees)
            faulty = any(any(t.startswith("fault=") for t in o[1]) for o in seq.lines)
            m = re.match(r"live=(\d+) zlive=(-?\d+)", obs)
            if m and not faulty and all(x is None for x in worlds) and (m.group(1) != "0" or m.group(2) != "0"):
                hits.append(hit("C04", seq, no, raw, f"after dropping every world {m.group(1)} component values and {m.group(2)} zero-sized values were never dropped", "leak"))
        elif kind == "preset":
            if obs.startswith("ok"):
                preset_used = True
        elif kind == "clear":
            if obs.startswith("ok") and w is not None:
                if len(op) > 1:
                    w.created[int(op[1])] = []
                    w.destroyed[int(op[1])] = []
                else:
                    w.created.clear()
                    w.destroyed.clear()
        elif kind == "events" and events and w is not None and False:
            pass
        if kind == "events" and events and w is not None:
            # C13: the pending events of a world and of its untouched clone are the same
            w.probes["#events"] = (w.epoch, obs)
            if w.clone_of is not None and w.epoch == w.clone_of[3]:
                si, sep, _tm, _ = w.clone_of
                src_ = worlds[si] if si < len(worlds) else None
                if src_ is not None and src_.epoch == sep:
                    rec = src_.probes.get("#events")
                    if rec and rec[0] == sep and rec[1] != obs:
                        hits.append(hit("C13", seq, no, raw, f"pending events differ between a world and its untouched clone: source `{rec[1][:120]}` clone `{obs[:120]}`", "clone-events-differ"))
            for cw in worlds:
                if cw is not None and cw.clone_of is not None and cw.clone_of[0] == cur and cw.epoch == cw.clone_of[3] and w.epoch == cw.clone_of[1]:
                    rec = cw.probes.get("#events")
                    if rec and rec[0] == cw.epoch and rec[1] != obs:
                        hits.append(hit("C13", seq, no, raw, f"pending events differ between a world and its untouched clone: source `{obs[:120]}` clone `{rec[1][:120]}`", "clone-events-differ"))
        if kind == "events" and events and w is not None and not w.unknown_destroy:
            stats["events"] += 1
            for a in range(narch):
                m = re.search(r"c%d=\[([^\]]*)\] d%d=\[([^\]]*)\]" % (a, a), obs)
                if not m:
                    continue
                c = [x for x in m.group(1).split(",") if x]
                d = [x for x in m.group(2).split(",") if x]
                if c != w.created[a]:
                    hits.append(hit("C17", seq, no, raw, f"created log of archetype {a} is {c}, creations since last clear {w.created[a]}", "created-log"))
                if sorted(d) != sorted(w.destroyed[a]) or len(set(d)) != len(d):
                    hits.append(hit("C17", seq, no, raw, f"destroyed log of archetype {a} is {d}, destructions since last clear {w.destroyed[a]}", "destroyed-log"))
                    alive_logged = [x_ for x_ in d if x_ in w.live and x_ not in w.destroyed[a]]
                    if panic_seen and alive_logged:
                        hits.append(hit("C10", seq, no, raw, f"after a caught panic the destroyed-event log of archetype {a} lists {alive_logged[:3]}, which is still alive: the entity is neither fully present nor fully absent", "event-log-after-panic"))
            for nm, hn in (("wc", "wch"), ("wd", "wdh")):
                m = re.search(r" %s=\[([^\]]*)\] %s=\[([^\]]*)\]" % (nm, hn), obs)
                if m:
                    items = [x for x in m.group(1).split(",") if x]
                    hn_ = [x for x in m.group(2).split(",") if x]
                    exp = [str(i) for i in range(len(items), -1, -1)]
                    if hn_ != exp:
                        hits.append(hit("C17", seq, no, raw, f"size_hint sequence {hn_} not exact for {len(items)} items", "size-hint"))
        if kind in ("iter", "iterb", "iterd", "iterds", "find", "findb") and "saved=1" in obs:
            # `save=dN`: the harness keeps the LAST direct handle a closure call received, typed by its id
            sv = next((t_[5:] for t_ in op if t_.startswith("save=")), None)
            dargs = [a_ for c_ in call_list(obs) for a_ in c_ if a_.startswith("d") and "." in a_]
            if sv:
                if dargs:
                    dwords = dargs[-1][1:]
                    da_ = id2arch.get(int(dwords.split(".")[0]) & 0xff)
                    hvars[sv] = ("d", dwords, da_, False)
                    # C07 / C09: the handle was handed to the LAST closure call for the entity visited
                    # there; unless that very call asked for the entity's destruction it designates a
                    # live entity and nothing has been removed from its archetype since
                    calls_ = call_list(obs)
                    last = calls_[-1] if calls_ else []
                    dec_ = next((t_[4:] for t_ in op if t_.startswith("dec=")), "")
                    last_dec = (dec_[len(calls_) - 1] if len(calls_) - 1 < len(dec_) else "c") if kind == "iterd" else "c"
                    lw = next((a_[1:] for a_ in last if a_.startswith("e") and "." in a_), None)
                    if lw is None:
                        lw = w.by_token([a_[1:].split(".")[0] for a_ in last if a_.startswith("c")]) if w is not None else None
                    if w is not None and da_ is not None and lw in w.live and last_dec in "cb" and "end=ok" in obs or (kind in ("find", "findb") and w is not None and da_ is not None and lw in w.live):
                        direct_issued[sv] = {"world": cur, "arch": da_, "toks": list(w.live[lw][1]), "removals": w.removals[da_], "words": dwords, "from_loop": kind}
                    else:
                        direct_issued.pop(sv, None)
                else:
                    hvars[sv] = ("u", None, None, False)
                    direct_issued.pop(sv, None)
        prev_summary = summary if summary else prev_summary
        if kind == "switch" and cur < len(worlds) and worlds[cur] is not None:
            prev_summary = summary
    return hits


def release_forged_ok(hv):
    return False


def check_iterd(seq, no, op, obs, raw, w, archs, ids):
    """C07 over one ecs_iter_destroy! observation: destroyed = flagged, each visited once."""
    hits = []
    m = re.match(r"n=(\d+) \[(.*?)\] end=(\S+)", obs)
    if not m:
        return hits
    calls = [c for c in m.group(2).split("|")] if m.group(2) else []
    dec = ""
    for t in op[2:]:
        if t.startswith("dec="):
            dec = t[4:]
    visited = []
    panicked = m.group(3).startswith("panic")
    live_before = None if w.unknown_destroy else {wd: a for wd, (a, _) in w.live.items()}
    for i, c in enumerate(calls):
        ent = None
        toks = []
        for arg in c.split(","):
            if arg.startswith("e"):
                ent = arg[1:]
            elif arg.startswith("c"):
                toks.append(arg[1:].split(".")[0])
        if ent is None:
            ent = w.by_token(toks)
        visited.append(ent)
        d = dec[i] if i < len(dec) else "c"
        # the call at which the loop panicked removed nothing: either the closure did not return
        # (injected fault) or the destroy itself panicked before touching anything (overflow)
        last_panicking = panicked and i == len(calls) - 1
        if ent is not None:
            if ent not in w.live and not w.unknown_destroy:
                hits.append(hit("C07", seq, no, raw, f"closure ran for {ent}, which was not alive when the loop started", "visit-dead"))
            if d in "dx" and not last_panicking:
                if ent in w.live:
                    w.kill(ent)
        elif d in "dx" and not last_panicking:
            w.unknown_destroy = True
        if d in "bx" and i != len(calls) - 1:
            hits.append(hit("C07", seq, no, raw, "closure called again after Break/BreakDestroy", "no-stop"))
    known = [v for v in visited if v is not None]
    if len(set(known)) != len(known):
        hits.append(hit("C07", seq, no, raw, "an entity was visited twice", "visit-twice"))
    # the closure runs for EVERY matching entity alive when the loop started, unless a Break /
    # BreakDestroy (or a panic) ended the loop
    stopped = panicked or any((dec[i] if i < len(dec) else "c") in "bx" for i in range(len(calls)))
    if not stopped and live_before is not None and all(v is not None for v in visited):
        for a in range(len(archs)):
            if query_cells(seq, op[1], a, archs, False) is None:
                continue
            want = {wd for wd, aa in live_before.items() if aa == a}
            missed = want - set(known)
            if missed:
                hits.append(hit("C07", seq, no, raw, f"the loop ran to completion without calling the closure for {sorted(missed)[:4]} of archetype {a}, alive when it started and matching the query", "missed-entity"))
                break
    return hits


# ----------------------------------------------------------------------------- C02 values

def view_pairs(v):
    """`ent@idx:tok.val,tok.val` -> [(tok, val)]"""
    if ":" not in v:
        return []
    out = []
    for x in v.split(":", 1)[1].split(","):
        if "." in x:
            t, val = x.split(".", 1)
            out.append((t, val))
    return out


def check_vals(seq, no, raw, w, pairs, hits, where):
    """C02 `latest values`: a component token shows the value last written to it through any path."""
    if w is None or not w.vals_ok:
        return
    for tok, val in pairs:
        if tok == "0":
            continue
        exp = w.vals.get(tok)
        if exp is not None and exp != val:
            note_ = " (18446744073709551615 is the harness' marker for: Components::get, get_mut and into_tuple of the struct handed back disagree with each other)" if val == "18446744073709551615" else ""
            hits.append(hit("C02", seq, no, raw, f"{where} shows component {tok} with value {val}; the value last written to it through any path is {exp}{note_}", "stale-value"))
            return


def call_list(obs):
    m = re.search(r"\[(.*?)\]", obs)
    if not m or not m.group(1):
        return []
    return [c.split(",") for c in m.group(1).split("|")]


def query_values(seq, no, op, obs, raw, w, hits):
    """Values seen by query closures, and the writes the closures make (`add=`: every mutable
    component parameter receives (value + add) mod 251)."""
    if w is None:
        return
    params = seq.queries.get(op[1])
    add = 0
    for t in op[2:]:
        if t.startswith("add="):
            add = int(t[4:])
    for args in call_list(obs):
        pairs = []
        for i, arg in enumerate(args):
            if arg.startswith("c") and "." in arg:
                tok, val = arg[1:].split(".", 1)
                pairs.append((tok, val))
        check_vals(seq, no, raw, w, pairs, hits, "a query closure")
        for i, arg in enumerate(args):
            if arg.startswith("c") and "." in arg:
                tok, val = arg[1:].split(".", 1)
                if tok == "0":
                    continue
                if params is None:
                    if add:
                        w.vals.pop(tok, None)
                    continue
                if add and i < len(params) and params[i].startswith(("M:", "OM:")):
                    w.vals[tok] = str((int(val) + add) % 251)
                else:
                    w.vals.setdefault(tok, val)


# ----------------------------------------------------------------------------- C06

def check_iter(seq, no, op, obs, raw, w, archs=None):
    """C06 over one ecs_iter!/ecs_iter_borrow! observation."""
    hits = []
    m = re.match(r"n=(\d+) \[(.*?)\] end=(\S+)", obs)
    if not m or w is None:
        return hits
    calls = [c.split(",") for c in m.group(2).split("|")] if m.group(2) else []
    brk = None
    for t in op[2:]:
        if t.startswith("brk="):
            brk = int(t[4:])
    n = len(calls)
    if brk is not None and n > brk + 1:
        hits.append(hit("C06", seq, no, raw, f"the closure ran {n} times although it returned EcsStep::Break at call {brk}: Break must end the whole query, across all archetypes", "no-stop"))
    visited = []
    per_arch = defaultdict(int)
    exact = not w.unknown_destroy
    for args in calls:
        ent = None
        toks = []
        for arg in args:
            if arg.startswith("e"):
                ent = arg[1:]
            elif arg.startswith("c"):
                toks.append(arg[1:].split(".")[0])
        if ent is None and toks:
            ent = w.by_token(toks)
        visited.append(ent)
        if ent is None or not exact:
            continue
        if ent not in w.live:
            hits.append(hit("C06", seq, no, raw, f"the closure ran for {ent}, which is not a live entity of this world", "visit-dead"))
            continue
        row = w.live[ent][1]
        bad = [t for t in toks if t != "0" and t not in row]
        if bad:
            hits.append(hit("C06", seq, no, raw, f"entity {ent} was presented with components {bad} that belong to another entity", "not-own-data"))
        per_arch[w.live[ent][0]] += 1
    known = [v for v in visited if v is not None]
    if len(set(known)) != len(known):
        hits.append(hit("C06", seq, no, raw, "an entity was visited twice in one pass", "visit-twice"))
    complete = m.group(3) == "ok" and (brk is None or n <= brk) and exact and all(v is not None for v in visited)
    if complete:
        for a, cnt in per_arch.items():
            nlive = sum(1 for (aa, _) in w.live.values() if aa == a)
            if cnt != nlive:
                hits.append(hit("C06", seq, no, raw, f"a complete pass visited {cnt} entities of archetype {a}, which has {nlive} live entities", "missed-entity"))
        # every archetype whose component set satisfies the query is visited, empty ones in between or not
        if archs is not None:
            for a in range(len(archs)):
                if a not in per_arch and query_cells(seq, op[1], a, archs, False) is not None:
                    nlive = sum(1 for (aa, _) in w.live.values() if aa == a)
                    if nlive:
                        hits.append(hit("C06", seq, no, raw, f"a complete pass visited no entity of archetype {a}, which satisfies the query and has {nlive} live entities", "missed-archetype"))
    return hits


# ----------------------------------------------------------------------------- C11

def query_cells(seq, q, arch, archs, definite=True):
    """Cells (archetype, column, mode) the runtime-borrowing query macros borrow for `arch`,
    or None when the query does not match it."""
    params = seq.queries.get(q)
    if params is None:
        return None
    comps = [c[0] for c in archs[arch]["comps"]]
    cells = set()
    for p in params:
        if p.startswith("C:") or p.startswith("M:"):
            x = p[2:]
            if x not in comps:
                return None
            cells.add((arch, comps.index(x), "m" if p[0] == "M" else "s"))
        elif p.startswith("O:") or p.startswith("OM:"):
            names = p.split(":", 1)[1].split(",")
            present = [x for x in names if x in comps]
            if not present:
                return None
            mode = "m" if p.startswith("OM:") else "s"
            if definite and len(present) != 1:
                continue
            for x in present:
                cells.add((arch, comps.index(x), mode))
        elif p.startswith("E:") or p.startswith("D:"):
            x = p[2:]
            if x != "_" and x != archs[arch]["name"]:
                return None
    return cells


def cells_conflict(a, b):
    for (x, c, m) in a:
        for (x2, c2, m2) in b:
            if x == x2 and c == c2 and (m == "m" or m2 == "m"):
                return (x, c)
    return None


def check_nest(seq, no, op, obs, raw, w, archs, id2arch, hvars):
    """C11 over the implementation-side event log of one nested-access tree: every access that
    was GRANTED conflicts with nothing held around it (no aliasing), and an access that was
    REFUSED (BorrowError / BorrowMutError) conflicts with something that may be held."""
    hits = []
    info = seq.info.get(no)
    if info is None or not info.startswith("#nest") or w is None:
        return hits
    evs = [e.strip() for e in info[5:].split("|")]
    narch = len(archs)
    stack = []

    def arch_of_args(args):
        toks = []
        for arg in args.split(","):
            if arg[:1] in ("e", "d") and "." in arg:
                a = id2arch.get(int(arg[1:].split(".")[0]) & 0xff)
                if a is not None:
                    return a
            elif arg.startswith("c"):
                toks.append(arg[1:].split(".")[0])
        ent = w.by_token(toks) if toks else None
        return w.live[ent][0] if ent in w.live else None

    for e in evs:
        if not e:
            continue
        if e.startswith("A "):
            d = e[2:].split(":")
            node = {"desc": e[2:], "kind": d[0], "acq": False, "def": set(), "pos": set(), "q": None}
            if d[0] == "bs":
                node["def"] = node["pos"] = {(int(d[1]), int(d[2]), d[3])}
            elif d[0] == "bc":
                node["def"] = node["pos"] = {(int(d[1]), int(d[3]), d[4])}
            elif d[0] == "fb":
                node["q"] = d[1]
                hv = hvars.get(d[2])
                if hv and hv[0] in ("e", "d") and hv[1] and "." in hv[1]:
                    a = id2arch.get(int(hv[1].split(".")[0]) & 0xff)
                    if a is not None:
                        node["def"] = query_cells(seq, d[1], a, archs, True) or set()
                        node["pos"] = query_cells(seq, d[1], a, archs, False) or set()
            elif d[0] == "ib":
                node["q"] = d[1]
                for a in range(narch):
                    # ecs_iter_borrow! borrows per entity: an EMPTY matched archetype is never touched
                    if not w.unknown_destroy and not any(aa == a for (aa, _) in w.live.values()):
                        continue
                    node["pos"] = node["pos"] | (query_cells(seq, d[1], a, archs, False) or set())
            elif d[0] == "cl":
                node["pos"] = {(a, c, "s") for a in range(narch) for c in range(len(archs[a]["comps"]))}
            stack.append(node)
        elif e.startswith("+"):
            if not stack:
                continue
            top = stack[-1]
            top["acq"] = True
            if top["kind"] == "ib":
                a = arch_of_args(e[1:])
                top["def"] = (query_cells(seq, top["q"], a, archs, True) or set()) if a is not None else set()
            for anc in stack[:-1]:
                if anc["acq"]:
                    c = cells_conflict(top["def"], anc["def"])
                    if c:
                        hits.append(hit("C11", seq, no, raw, f"access `{top['desc']}` was granted while `{anc['desc']}` is held: both reach column {c[1]} of archetype {c[0]} and one of them mutably (aliasing instead of a panic)", "aliasing"))
        elif e == "-":
            if stack and stack[-1]["kind"] == "ib":
                stack[-1]["def"] = set()
        elif e == "X":
            if stack:
                stack.pop()
    m = re.search(r"end=panic:(\w+)", obs)
    if m and m.group(1) in ("HARNESS", "Injected"):
        m = None
    if m and stack:
        top = stack[-1]
        refused_before_grant = (not top["acq"]) or top["kind"] == "ib"
        if refused_before_grant:
            held = set()
            for anc in stack[:-1]:
                if anc["acq"]:
                    held |= anc["pos"]
            if not cells_conflict(top["pos"], held):
                hits.append(hit("C11", seq, no, raw, f"access `{top['desc']}` was refused with {m.group(1)} although nothing it needs is held in a conflicting mode (held: {[a['desc'] for a in stack[:-1] if a['acq']]})", "refused-wrongly"))
    if "sweep=BAD" in obs:
        hits.append(hit("C11", seq, no, raw, "after the access tree ended a column is still marked borrowed", "stuck-borrow"))
    return hits


# ----------------------------------------------------------------------------- C13

def map_view(v, tokmap):
    if ":" not in v or "@" not in v:
        return v
    head, rest = v.split(":", 1)
    out = []
    for x in rest.split(","):
        if "." in x:
            t, val = x.split(".", 1)
            out.append(tokmap.get(t, t) + "." + val)
        else:
            out.append(x)
    return head + ":" + ",".join(out)


def clone_compare(seq, no, raw, var, f_src, f_clone, tokmap, hits):
    for k, v in f_src.items():
        if k not in f_clone:
            continue
        if map_view(v, tokmap) != f_clone[k]:
            hits.append(hit("C13", seq, no, raw, f"the same observation `{k}` of handle {var} differs between a world and its untouched clone: {v[:60]} vs {f_clone[k][:60]}", "clone-differs"))
            return
