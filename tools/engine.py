"""Shared machinery of ./check: tree hashing, cached builds (lake, cargo), streams,
oracles, failing-input search (shrinking), verdicts, evidence."""
import sys, os, json, time, subprocess, hashlib, fcntl, re, shutil, glob

VERIF = os.path.dirname(os.path.dirname(os.path.abspath(__file__)))
REPO = "/repo"
CACHE = os.path.join(VERIF, ".cache")
LEAN = os.path.join(VERIF, "lean")
MODEL_BIN = os.path.join(LEAN, ".lake", "build", "bin", "gecs-model")
EVID = os.path.join(VERIF, "evidence")
REPLAYS = os.path.join(EVID, "replays")
KNOWN = os.path.join(VERIF, "known-findings.txt")

sys.path.insert(0, os.path.join(VERIF, "tools"))
import oracles  # noqa: E402

ENV = dict(os.environ, CARGO_NET_OFFLINE="true", RUST_BACKTRACE="0")

FEATURES = ["events", "wrapping_version", "32_components"]


def all_configs():
    out = {}
    for prof in ("debug", "release"):
        for mask in range(8):
            feats = [f for i, f in enumerate(FEATURES) if mask >> i & 1]
            name = ("dbg" if prof == "debug" else "rel") + "-" + ("".join(f[0] for f in feats) or "none")
            out[name] = (prof, feats)
    return out


CONFIGS = all_configs()
QUICK_CONFIGS = ["dbg-none", "rel-ew3"]
ALL_PROFILES = ["mix", "churn", "grow", "query", "clone", "forge", "events", "borrow", "fault", "overflow"]

TRUSTED_BASE = [
    "Lean 4.33 kernel (theorems re-checked by `lake build`; thorough tier: leanchecker)",
    "axioms allowed: propext, Classical.choice, Quot.sound (audited per theorem with #print axioms)",
    "hand-written L1 models (lean/Gecs/Model/*.lean) are claims about the code, trusted as far as the correspondence streams exercise them",
    "harness/rt (interpreter over the real gecs API, instrumented components, panic classification) and tools/oracles.py",
    "modelled, not verified: DataPtr raw memory (alloc/realloc/ptr::copy), raw-pointer iterators, repr(transparent) transmutes, std RefCell, unwinding, rustc macro expansion",
]


def log(msg):
    print(f"[check] {msg}", file=sys.stderr, flush=True)


class Lock:
    def __init__(self, name):
        os.makedirs(CACHE, exist_ok=True)
        self.path = os.path.join(CACHE, name + ".lock")

    def __enter__(self):
        self.f = open(self.path, "w")
        fcntl.flock(self.f, fcntl.LOCK_EX)
        return self

    def __exit__(self, *a):
        fcntl.flock(self.f, fcntl.LOCK_UN)
        self.f.close()


def sh(cmd, cwd=None, timeout=None, env=None, input=None):
    p = subprocess.run(cmd, cwd=cwd, env=env or ENV, stdout=subprocess.PIPE, stderr=subprocess.STDOUT,
                       timeout=timeout, input=input, text=True)
    return p.returncode, p.stdout


def tree_hash():
    h = hashlib.sha256()
    files = []
    for base in ("src", "macros/src"):
        for root, _, fs in os.walk(os.path.join(REPO, base)):
            for f in fs:
                files.append(os.path.join(root, f))
    for f in ("Cargo.toml", "Cargo.lock", "macros/Cargo.toml"):
        files.append(os.path.join(REPO, f))
    for f in sorted(files):
        if os.path.exists(f):
            h.update(f.encode())
            h.update(open(f, "rb").read())
    # the machinery itself is part of the key
    for pat in ("harness/rt/src/*.rs", "harness/rt/Cargo.toml", "harness/alloc_check/src/*.rs", "harness/alloc_check/Cargo.toml",
                "lean/Gecs/**/*.lean", "lean/Gecs.lean", "lean/Main.lean", "tools/*.py",
                "harness/mac/src/*.rs", "harness/mac/Cargo.toml"):
        for f in sorted(glob.glob(os.path.join(VERIF, pat), recursive=True)):
            h.update(f.encode())
            h.update(open(f, "rb").read())
    return h.hexdigest()[:16]


_TREE = None


def tdir():
    global _TREE
    if _TREE is None:
        _TREE = os.path.join(CACHE, "t-" + tree_hash())
        os.makedirs(_TREE, exist_ok=True)
        # keep the cache bounded: drop other trees' stream outputs
        for d in glob.glob(os.path.join(CACHE, "t-*")):
            try:
                if d != _TREE and time.time() - os.path.getmtime(d) > 3600:
                    shutil.rmtree(d, ignore_errors=True)
            except OSError:
                pass   # another check pruned it concurrently
    return _TREE


# ----------------------------------------------------------------------------- Lean

def lean_build():
    """Build the whole Lean project (models, lemmas, property theorems, driver). Cached by lake."""
    marker = os.path.join(tdir(), "lean-build.json")
    with Lock("lake"):
        if os.path.exists(marker):
            return json.load(open(marker))
        t0 = time.time()
        gen_rc, gen_log = run_extract()
        rc, out = sh(["lake", "build", "Gecs", "gecs-model"], cwd=LEAN, timeout=3600)
        failed = sorted(set(re.findall(r"^✖ \[\d+/\d+\] Building (\S+)", out, re.M)) |
                        set(re.findall(r"^- (Gecs\.\S+)", out, re.M)))
        res = {"ok": rc == 0 and gen_rc == 0, "failed_modules": failed, "wall_s": round(time.time() - t0, 1),
               "log_tail": out[-6000:], "extract_ok": gen_rc == 0, "extract_log": gen_log[-2000:]}
        if rc != 0:
            # build what can be built so that unaffected properties are still decided
            sh(["lake", "build", "gecs-model"], cwd=LEAN, timeout=3600)
        if os.path.exists(MODEL_BIN):
            os.makedirs(os.path.join(tdir(), "bin"), exist_ok=True)
            shutil.copy2(MODEL_BIN, os.path.join(tdir(), "bin", "gecs-model"))
        json.dump(res, open(marker, "w"))
        return res


def run_extract():
    """Translator part: regenerate lean/Gecs/Gen/*.lean from /repo sources."""
    tool = os.path.join(VERIF, "tools", "extract.py")
    if not os.path.exists(tool):
        return 0, "no translator yet"
    return sh([sys.executable, tool], cwd=VERIF, timeout=300)


FORBIDDEN = re.compile(r"\b(sorry|admit|native_decide|bv_decide|implemented_by)\b|^\s*axiom\s|\bunsafe\s|maxHeartbeats\s+0")


def source_scan():
    bad = []
    for f in glob.glob(os.path.join(LEAN, "Gecs", "**", "*.lean"), recursive=True) + [os.path.join(LEAN, "Main.lean")]:
        in_block = 0
        for no, line in enumerate(open(f), 1):
            s = line
            # strip comments (block comments tracked coarsely)
            if in_block:
                if "-/" in s:
                    in_block = 0
                    s = s.split("-/", 1)[1]
                else:
                    continue
            if "/-" in s:
                head = s.split("/-", 1)[0]
                if "-/" not in s.split("/-", 1)[1]:
                    in_block = 1
                s = head
            s = re.sub(r'"(\\.|[^"\\])*"', '""', s)   # string literals are data, not proof terms
            s = s.split("--", 1)[0]
            if FORBIDDEN.search(s):
                bad.append(f"{os.path.relpath(f, VERIF)}:{no}: {line.strip()}")
    return bad


def obligations_of(prop):
    f = os.path.join(LEAN, "Gecs", "Props", prop + ".lean")
    if not os.path.exists(f):
        return None, []
    names = []
    for line in open(f):
        m = re.match(r"--\s*OBLIGATIONS:\s*(.*)", line)
        if m:
            names += m.group(1).split()
    # property theorems that need more than one property's files (Props/Histories.lean) are listed
    # there as `-- OBLIGATIONS(Cxx): …`
    for g in sorted(glob.glob(os.path.join(LEAN, "Gecs", "Props", "*.lean"))):
        for line in open(g):
            m = re.match(r"--\s*OBLIGATIONS\((\w+)\):\s*(.*)", line)
            if m and m.group(1) == prop:
                mod = "Gecs.Props." + os.path.basename(g)[:-5]
                EXTRA_MODULES.setdefault(prop, [])
                if mod not in EXTRA_MODULES[prop]:
                    EXTRA_MODULES[prop].append(mod)
                names += [n for n in m.group(2).split() if n not in names]
    return f, names


EXTRA_MODULES = {}


ALLOWED_AXIOMS = {"propext", "Classical.choice", "Quot.sound"}


def lean_obligations(prop):
    """Returns dict(obligations, discharged, axioms{thm:[..]}, broken[..], checker_cmd)."""
    build = lean_build()
    f, names = obligations_of(prop)
    res = {"obligations": len(names), "discharged": 0, "axioms": {}, "broken": [], "names": names,
           "checker_cmd": "cd /verif/lean && lake build Gecs.Props.%s  (+ #print axioms audit, source scan for sorry/axiom/native_decide)" % prop,
           "build_ok": build["ok"], "scan": []}
    if f is None:
        res["broken"].append("no Props file for " + prop)
        return res
    marker = os.path.join(tdir(), f"audit-{prop}.json")
    if os.path.exists(marker):
        return json.load(open(marker))
    mod = "Gecs.Props." + prop
    audit = os.path.join(tdir(), f"audit_{prop}.lean")
    mods = [mod] + EXTRA_MODULES.get(prop, [])
    with open(audit, "w") as fh:
        fh.write("".join(f"import {m_}\n" for m_ in mods) + "open Gecs\n")
        for n in names:
            fh.write(f"#print axioms {n}\n")
    with Lock("lake"):
        rc0, out0 = sh(["lake", "build"] + mods, cwd=LEAN, timeout=3600)
        rc, out = sh(["lake", "env", "lean", audit], cwd=LEAN, timeout=1200)
    if rc0 != 0:
        res["broken"].append(f"module {' / '.join(mods)} does not build")
        res["log_tail"] = out0[-3000:]
    cur = None
    found = {}
    for m in re.finditer(r"'([^']+)' (depends on axioms: \[([^\]]*)\]|does not depend on any axioms)", out.replace("\n ", " ")):
        ax = [a.strip() for a in (m.group(3) or "").split(",") if a.strip()]
        found[m.group(1)] = ax
    for n in names:
        key = n if n in found else ("Gecs." + n if "Gecs." + n in found else None)
        if key is None:
            res["broken"].append(f"theorem {n} missing or does not check")
            continue
        ax = found[key]
        res["axioms"][n] = ax
        extra = [a for a in ax if a not in ALLOWED_AXIOMS]
        if extra:
            res["broken"].append(f"theorem {n} depends on non-standard axioms {extra}")
        else:
            res["discharged"] += 1
    res["scan"] = source_scan()
    if res["scan"]:
        res["broken"].append("forbidden tokens in Lean sources: " + "; ".join(res["scan"][:5]))
    json.dump(res, open(marker, "w"))
    return res


# ----------------------------------------------------------------------------- harness builds

def build_rt(cfgname):
    prof, feats = CONFIGS[cfgname]
    target = os.path.join(CACHE, "target-rt-" + cfgname)
    built = os.path.join(target, prof, "rt")
    # The cargo target directory is shared between trees (incremental builds), so the binary a
    # tree's streams are produced with is COPIED into that tree's cache directory: coming back to
    # an earlier tree (e.g. after a seeded change was reverted) never runs another tree's build.
    bindir = os.path.join(tdir(), "bin")
    os.makedirs(bindir, exist_ok=True)
    binp = os.path.join(bindir, "rt-" + cfgname)
    marker = os.path.join(tdir(), f"rt-{cfgname}.json")
    with Lock("cargo-" + cfgname):
        if os.path.exists(marker):
            r = json.load(open(marker))
            if r["ok"] and os.path.exists(binp):
                return r
        t0 = time.time()
        hdir = os.path.join(VERIF, "harness", "rt")
        shutil.copy(os.path.join(REPO, "Cargo.lock"), os.path.join(hdir, "Cargo.lock"))
        cmd = ["cargo", "build", "--offline"]
        if prof == "release":
            cmd.append("--release")
        if feats:
            cmd += ["--features", ",".join(feats)]
        env = dict(ENV, CARGO_TARGET_DIR=target, RUSTFLAGS="--cfg gecs_verif -Awarnings")
        rc, out = sh(cmd, cwd=hdir, env=env, timeout=3600)
        if rc == 0:
            shutil.copy2(built, binp)
        r = {"ok": rc == 0, "bin": binp, "wall_s": round(time.time() - t0, 1), "log_tail": out[-4000:]}
        json.dump(r, open(marker, "w"))
        return r


def model_bin():
    """The model driver this tree's Lean sources were built into (copied per tree like the harness)."""
    lean_build()
    b = os.path.join(tdir(), "bin", "gecs-model")
    return b if os.path.exists(b) else MODEL_BIN


# ----------------------------------------------------------------------------- streams

def run_model(trace_path):
    with open(trace_path) as fh:
        p = subprocess.run([model_bin(), "rt"], stdin=fh, stdout=subprocess.PIPE, stderr=subprocess.PIPE, text=True, errors="replace")
    mism, invf, summary = [], [], None
    for line in p.stdout.splitlines():
        if line.startswith("MISMATCH"):
            mism.append(line)
        elif line.startswith("INVFAIL"):
            invf.append(line)
        elif line.startswith("SUMMARY"):
            summary = dict(kv.split("=", 1) for kv in line.split()[1:] if "=" in kv)
    return {"mismatches": mism, "invfails": invf, "summary": summary, "rc": p.returncode,
            "stderr": p.stderr[-500:]}


def invfail_hits(trace_path, invfails):
    """The representation invariant evaluated on the IMPLEMENTATION's dumped state is false: when
    that happens after a panic was caught in the same sequence it is a concrete C10 failure (the
    panic left the world inconsistent), independent of the L1 model."""
    if not invfails:
        return []
    lines = open(trace_path, errors="replace").read().splitlines()
    hits = []
    for inv in invfails:
        m = re.match(r"INVFAIL seq=(\S+) line=(\d+) op=(.*?) impl=", inv)
        if not m:
            continue
        ln = int(m.group(2))
        # walk back to the sequence header, looking for a caught panic
        j = ln - 2
        panic_line = None
        header = None
        while j >= 0:
            l = lines[j]
            if l.startswith("seq "):
                header = l
                break
            if " => panic" in l or "end=panic" in l:
                panic_line = panic_line or l
            j -= 1
        if panic_line and header:
            hits.append({"property": "C10", "seq": header, "line": ln, "op": m.group(3), "class": "inv-after-panic",
                         "what": f"after the caught panic `{panic_line[:120]}` the storage dumped from the implementation violates the representation invariant (an entity is neither fully present nor fully absent)"})
    return hits


def run_stream(cfgname, profile, seed, nseq, maxops, args=None):
    """`args`: alternative harness arguments (e.g. ["decs", "4"] or ["run", file]) instead of the
    seeded generator; `profile` is then only a label."""
    key = f"{cfgname}-{profile}-{seed}-{nseq}-{maxops}"
    out = os.path.join(tdir(), "streams")
    os.makedirs(out, exist_ok=True)
    jf = os.path.join(out, key + ".json")
    tf = os.path.join(out, key + ".trace")
    with Lock("stream-" + key):
        if os.path.exists(jf):
            return json.load(open(jf))
        b = build_rt(cfgname)
        res = {"key": key, "config": cfgname, "profile": profile, "trace": tf, "harness_ok": b["ok"]}
        if not b["ok"]:
            res.update({"crashed": "harness does not build", "log_tail": b["log_tail"], "mismatches": [], "invfails": [],
                        "summary": None, "oracle_hits": [], "oracle_stats": {}})
            json.dump(res, open(jf, "w"))
            return res
        t0 = time.time()
        with open(tf, "w") as fh:
            p = subprocess.run([b["bin"]] + (args or ["gen", str(seed), str(nseq), str(maxops), profile]), stdout=fh,
                               stderr=subprocess.PIPE, text=True, env=ENV)
        res["harness_rc"] = p.returncode
        res["harness_stderr"] = p.stderr[-1500:]
        if p.returncode != 0:
            res["crashed"] = f"harness exited with {p.returncode}: {p.stderr[-300:]}"
        m = run_model(tf)
        res.update(m)
        if m["summary"] is None and not res.get("crashed"):
            res["crashed"] = f"model driver did not finish replaying the trace (rc={m['rc']}): {m['stderr'][-200:]}"
        hits, stats = oracles.run_oracles(tf)
        if p.returncode < 0:
            # killed by a signal (SIGSEGV / SIGABRT from the allocator): memory unsafety of the real
            # code on a concrete history; the op that was running is the last line of the trace
            seqs_ = oracles.parse_trace(tf)
            last = seqs_[-1] if seqs_ else None
            hits.append({"property": "MEMSAFE", "seq": last.header if last else "?", "line": last.lines[-1][0] if last and last.lines else 0,
                         "op": last.lines[-1][4] if last and last.lines else "?", "class": "crash-signal",
                         "what": f"the harness process running the real gecs code was killed by signal {-p.returncode} ({'SIGSEGV' if p.returncode == -11 else 'SIGABRT' if p.returncode == -6 else 'signal'}) during `{last.lines[-1][4] if last and last.lines else '?'}`: {p.stderr[-200:].strip()}"})
        res["oracle_hits"] = hits + invfail_hits(tf, m["invfails"])
        res["oracle_stats"] = stats
        res["wall_s"] = round(time.time() - t0, 2)
        res["seq_stats"] = seq_stats(tf)
        json.dump(res, open(jf, "w"))
        return res


BOUNDARY_EXPECT = [
    "B1 panic CapacityExceeds",
    "B2 filled={half} cap={half} cap_changed=0 extra_refused=1",
    "B3 ok grew=1 within=1 len={half1}",
    "B4 len={max} cap={max} monotone=1 failed_at=-1",
    "B5 panic CapacityOverflow len_same=1 cap_same=1",
    "B6 destroyed=1 len_after_destroy={maxm1} refilled=1 len={max} contains_old=0",
    "B7 len={max} cap={max} monotone=1 failed_at=-1 growths_ge1=1",
    "B8 extra_create=panic:CapacityOverflow dup_of_first=0 len={max}",
    "B9 ok cap={max} within=1",
    "B10.0 cap0_below_max=1 within_ok=1 len={max} cap={max} failed_at=-1 extra=panic:CapacityOverflow",
    "B10.1 cap0_below_max=2 within_ok=1 len={max} cap={max} failed_at=-1 extra=panic:CapacityOverflow",
    "B10.2 cap0_below_max=7 within_ok=1 len={max} cap={max} failed_at=-1 extra=panic:CapacityOverflow",
    "B10.3 cap0_below_max={quarter} within_ok=1 len={max} cap={max} failed_at=-1 extra=panic:CapacityOverflow",
    "B12 issued={max} duplicates=0 first=- own_entity=1",
    "B11 alloc=0",
]
BOUNDARY_WHAT = {
    "B1": "with_capacity beyond 2^24 must panic", "B2": "with_capacity(n) permits exactly n create_within_capacity without reallocation",
    "B3": "create below the limit succeeds and grows strictly within the limit", "B4": "create always succeeds below 16,777,216 entities; capacity monotone and >= len",
    "B5": "create at the limit panics without changing len/capacity", "B6": "a position freed at the limit is reusable",
    "B7": "growth from the empty world reaches the limit",
    "B8": "a create beyond the limit must be refused; whatever it does, it must not return a handle that is already alive",
    "B9": "with_capacity(2^24) is legal and gives exactly that capacity",
    "B10.0": "from an initial capacity of 2^24 - 1, create succeeds until 16,777,216 entities exist and only then panics",
    "B10.1": "from an initial capacity of 2^24 - 2, create succeeds until 16,777,216 entities exist and only then panics",
    "B10.2": "from an initial capacity of 2^24 - 7, create succeeds until 16,777,216 entities exist and only then panics",
    "B10.3": "from an initial capacity of 3*2^22 + 1, create succeeds until 16,777,216 entities exist and only then panics",
    "B12": "the 2^24 handles issued while one archetype grows from empty to the limit are pairwise distinct (sorted and compared), and handles from all parts of the range lead to their own entity",
    "B11": "after the whole boundary run (every world dropped, whatever panicked on the way) no array was resized or released with a layout that is not its own (layout-checking allocator of harness/alloc_check)",
}


def run_boundary(cfgname):
    """C12/C10: the real 2^24 boundary on the implementation alone, compared with the closed-form
    predictions of the C12 theorems (C12_with_capacity, C12_within_capacity_iff,
    C12_create_succeeds_below_limit, C12_create_at_limit_panics_cleanly, C12_refill_after_any_history)."""
    jf = os.path.join(tdir(), f"boundary-{cfgname}.json")
    with Lock("boundary-" + cfgname):
        if os.path.exists(jf):
            return json.load(open(jf))
        b = build_rt(cfgname)
        res = {"key": "boundary-" + cfgname, "config": cfgname, "profile": "boundary", "mismatches": [], "invfails": [],
               "summary": None, "oracle_hits": [], "harness_ok": b["ok"], "lines": []}
        if not b["ok"]:
            res["crashed"] = "harness does not build"
        else:
            t0 = time.time()
            p = subprocess.run([b["bin"], "boundary"], stdout=subprocess.PIPE, stderr=subprocess.PIPE, text=True, env=ENV, timeout=1800)
            mx = 1 << 24
            exp = [e.format(max=mx, maxm1=mx - 1, half=mx // 2, half1=mx // 2 + 1, quarter=mx - (3 * (mx // 4) + 1)) for e in BOUNDARY_EXPECT]
            got = p.stdout.splitlines()
            res["lines"] = got
            died = p.returncode != 0
            for e in exp:
                tag = e.split()[0]
                g = next((x for x in got if x.startswith(tag + " ")), None)
                if g is None and died:
                    # the process died (abort / signal) while producing this line: the operation the
                    # line reports on did not survive
                    res["oracle_hits"].append({"property": "C12", "seq": "boundary", "line": 0, "op": "rt boundary", "class": "boundary-" + tag,
                                               "what": f"{BOUNDARY_WHAT[tag]}: expected `{e}`, but the process running the real code died there (exit {p.returncode}: {p.stderr[-200:].strip()})", "no_shrink": True})
                    break
                if g != e and not res.get("crashed") and tag == "B11":
                    # memory safety after the panics of this run: charged to C10 as well
                    res["oracle_hits"].append({"property": "C10", "seq": "boundary", "line": 0, "op": "rt boundary", "class": "boundary-B11",
                                               "what": f"{BOUNDARY_WHAT[tag]}: expected `{e}`, observed `{g}`; lines of the run: {[x for x in got if 'panic' in x][:4]}", "no_shrink": True})
                if g != e and not res.get("crashed"):
                    res["oracle_hits"].append({"property": "C08" if ((tag in ("B5", "B8") and g and "dup_of_first=1" in g) or tag == "B12") else "C12", "seq": "boundary", "line": 0, "op": "rt boundary", "class": "boundary-" + tag,
                                               "what": f"{BOUNDARY_WHAT[tag]}: expected `{e}`, observed `{g}`", "no_shrink": True})
            res["wall_s"] = round(time.time() - t0, 2)
        json.dump(res, open(jf, "w"))
        return res


def run_shapes(cfgname):
    """C04: the fixed ownership scenario of harness/rt/src/shapes.rs on archetype shapes mixing
    components without drop glue, drop-tracked ones and a zero-sized Drop type (implementation
    only).  Prediction of the C04 theorems: everything made or cloned is dropped exactly once."""
    jf = os.path.join(tdir(), f"shapes-{cfgname}.json")
    with Lock("shapes-" + cfgname):
        if os.path.exists(jf):
            return json.load(open(jf))
        b = build_rt(cfgname)
        res = {"key": "shapes-" + cfgname, "config": cfgname, "profile": "shapes", "mismatches": [], "invfails": [],
               "summary": None, "oracle_hits": [], "harness_ok": b["ok"], "lines": []}
        if not b["ok"]:
            res["crashed"] = "harness does not build"
        else:
            p = subprocess.run([b["bin"], "shapes"], stdout=subprocess.PIPE, stderr=subprocess.PIPE, text=True, env=ENV, timeout=600)
            got = p.stdout.splitlines()
            res["lines"] = got
            if p.returncode != 0:
                res["crashed"] = f"shapes run exited with {p.returncode}: {p.stderr[-300:]}"
            l1 = next((x for x in got if x.startswith("L1 ")), None)
            if not res.get("crashed") and not (l1 and "all_or_nothing=1" in l1 and "errors=0" in l1 and "alloc=0" in l1):
                res["oracle_hits"].append({"property": "C10", "seq": "shapes", "line": 0, "op": "rt shapes", "class": "shapes-L1", "no_shrink": True,
                                           "what": f"after a runtime borrow guard was leaked with mem::forget, a create that panics must leave the archetype unchanged and one that returns must have added a whole entity, and the world must afterwards be dropped with the layouts its arrays really have (alloc=0: the layout-checking allocator of harness/alloc_check) (harness/rt/src/shapes.rs leaked_guard); observed `{l1}`"})
            l3 = next((x for x in got if x.startswith("L3 ")), None)
            if not res.get("crashed") and not (l3 and "all_or_nothing=1" in l3 and "errors=0" in l3 and "alloc=0" in l3):
                res["oracle_hits"].append({"property": "C10", "seq": "shapes", "line": 0, "op": "rt shapes", "class": "shapes-L3", "no_shrink": True,
                                           "what": f"with the guard of each column leaked in turn (mem::forget) and the archetype grown through several reallocations, every create must add a whole entity or change nothing, and the world must stay usable and be dropped with the layouts its arrays really have (alloc=0) (harness/rt/src/shapes.rs leaked_guard_growth); observed `{l3}`"})
            f1 = next((x for x in got if x.startswith("F1 ")), None)
            if not res.get("crashed") and not (f1 and f1.startswith("F1 accepted=0 ") and "data_intact=1" in f1):
                res["oracle_hits"].append({"property": "C03", "seq": "shapes", "line": 0, "op": "rt shapes", "class": "shapes-F1", "no_shrink": True,
                                           "what": f"in a world with ONE archetype, keys whose archetype byte is not that archetype's (EntityAny::from_raw over the 255 other values; handles and direct handles of a world of another type with equal position and generation) must be rejected or panic cleanly on every dynamically typed path, ecs_find! / ecs_find_borrow! included, and leave the data untouched (harness/rt/src/shapes.rs one::run); observed `{f1}`"})
            r1 = next((x for x in got if x.startswith("R1 ")), None)
            if not res.get("crashed") and r1 != "R1 attempts=32 aliasing_granted=0 [] refused_wrongly=0 [] clones_ok=2/2":
                res["oracle_hits"].append({"property": "C11", "seq": "shapes", "line": 0, "op": "rt shapes", "class": "shapes-R1", "no_shrink": True,
                                           "what": f"a component whose Clone::clone re-enters its own world while World::clone / Archetype::clone is reading the columns: exclusive runtime borrows of columns of the archetype being cloned (borrow_slice_mut, component_mut, ecs_find_borrow! / ecs_iter_borrow! with &mut) must panic instead of being granted, shared ones and accesses to another archetype must succeed, and the clones complete (harness/rt/src/shapes.rs reent); observed `{r1}`"})
            k1 = next((x for x in got if x.startswith("K1 ")), None)
            if not res.get("crashed") and k1 != "K1 clone_calls_world=3 clone_calls_archetype=2 clone_holds_clone_results=1 original_untouched=1 archetype_clone_ok=1":
                for pr_ in ("C13", "C04", "C02"):
                    res["oracle_hits"].append({"property": pr_, "seq": "shapes", "line": 0, "op": "rt shapes", "class": "shapes-K1", "no_shrink": True,
                                               "what": f"a component WITHOUT drop glue whose Clone is not a bit copy (it counts its calls and marks the value it returns): World::clone / Archetype::clone must call Clone::clone exactly once per live value (3 and 2 here) and the clone must hold what Clone::clone returned, the original staying untouched (harness/rt/src/shapes.rs deepclone); observed `{k1}`"})
            v1 = next((x for x in got if x.startswith("V1 ")), None)
            if not res.get("crashed") and v1 != "V1 7:7/7/11 2:2/2/11 3:3/3/11 undeclared_accepted=[]":
                res["oracle_hits"].append({"property": "C14", "seq": "shapes", "line": 0, "op": "rt shapes", "class": "shapes-V1", "no_shrink": True,
                                           "what": f"a world whose explicit archetype ids are not in declaration order (7, 2, 3): SelectArchetype::try_from(id) and try_from(handle) must both succeed for every declared archetype and report its own id, SelectEntity / SelectEntityDirect must accept its handles, undeclared ids must be refused (harness/rt/src/shapes.rs idorder; per archetype `id:by_id/by_handle/select_entity select_direct`); observed `{v1}`"})
            d1 = next((x for x in got if x.startswith("D1 ")), None)
            if not res.get("crashed") and d1 != "D1 is_destroy=0011 default=Continue from_unit=Continue from_continue=Continue from_break=Break step_default=Continue step_from_unit=Continue":
                res["oracle_hits"].append({"property": "C07", "seq": "shapes", "line": 0, "op": "rt shapes", "class": "shapes-D1", "no_shrink": True,
                                           "what": f"the step values an ecs_iter_destroy! closure returns: is_destroy() holds exactly for ContinueDestroy and BreakDestroy; (), EcsStep::Continue and the defaults mean Continue, EcsStep::Break means Break (harness/rt/src/shapes.rs step_values); observed `{d1}`"})
            l2 = next((x for x in got if x.startswith("L2 ")), None)
            if not res.get("crashed") and l2 != "L2 loop_ok=1 visited=5 left=2/1 consistent=1 errors=0 alloc=0":
                res["oracle_hits"].append({"property": "C07", "seq": "shapes", "line": 0, "op": "rt shapes", "class": "shapes-L2", "no_shrink": True,
                                           "what": f"ecs_iter_destroy! over two archetypes after a column guard was leaked with mem::forget must visit all 5 entities, destroy exactly the 2 flagged ones and leave the archetypes consistent (harness/rt/src/shapes.rs leaked_guard_iter_destroy); observed `{l2}`"})
            tags = [f"S{i}" for i in range(1, 8)]
            for tag in tags:
                g = next((x for x in got if x.startswith(tag + " ")), None)
                f = dict(kv.split("=") for kv in (g or "").split() if "=" in kv)
                ok = g is not None and " ok " in g and f.get("live") == "0" and f.get("zlive") == "0" and f.get("errors") == "0" and f.get("alloc") == "0" \
                    and int(f.get("dropped", -1)) == int(f.get("made", 0)) + int(f.get("cloned", 0))
                if not ok and not res.get("crashed"):
                    res["oracle_hits"].append({"property": "C04", "seq": "shapes", "line": 0, "op": "rt shapes", "class": "shapes-" + tag, "no_shrink": True,
                                               "what": f"ownership scenario on archetype shape {tag} (see harness/rt/src/shapes.rs): every value made or cloned must be dropped exactly once, nothing may stay alive, and every array must be released with the layout it was allocated with (alloc=0); observed `{g}`"})
        json.dump(res, open(jf, "w"))
        return res


def run_smallworlds(cfgname):
    """C17 on worlds of one and two archetypes (harness/rt/src/shapes.rs `ev`): world-level event
    iterators vs archetype-level logs, size_hint at every position, clears (implementation only)."""
    jf = os.path.join(tdir(), f"smallworlds-{cfgname}.json")
    with Lock("smallworlds-" + cfgname):
        if os.path.exists(jf):
            return json.load(open(jf))
        b = build_rt(cfgname)
        res = {"key": "smallworlds-" + cfgname, "config": cfgname, "profile": "smallworlds", "mismatches": [], "invfails": [],
               "summary": None, "oracle_hits": [], "harness_ok": b["ok"], "lines": []}
        if not b["ok"]:
            res["crashed"] = "harness does not build"
        else:
            p = subprocess.run([b["bin"], "smallworlds"], stdout=subprocess.PIPE, stderr=subprocess.PIPE, text=True, env=ENV, timeout=600)
            got = p.stdout.splitlines()
            res["lines"] = got
            if p.returncode != 0:
                res["crashed"] = f"smallworlds run exited with {p.returncode}: {p.stderr[-300:]}"
            e1 = next((x for x in got if x.startswith("E1 ")), "")
            cm = 1 if "c_made=1" in e1 else 0
            exp = [f"E1 created_world_eq_arch=1 destroyed_world_eq_arch=1 n_created={2 + cm} n_destroyed=1 hints_exact=1 after_one_next=1 first_is_a=1 c_made={cm}",
                   f"E2 after_clear created=0 destroyed=0 len={1 + cm}",
                   "E3 created=2 destroyed=1 hints_exact=1 order_ok=1",
                   "E4 created=1 destroyed=0 hints_exact=1 only_left=1",
                   ("E5 n_arch=256 created=3 destroyed=1 after_clear=0 hints_exact=1 finished_stays_finished=1" if CONFIGS[cfgname][0] != "release" else "E5 skipped (release build)")]
            for e in exp:
                tag = e.split()[0]
                g = next((x for x in got if x.startswith(tag + " ")), None)
                if g != e and not res.get("crashed"):
                    res["oracle_hits"].append({"property": "C17", "seq": "smallworlds", "line": 0, "op": "rt smallworlds", "class": "smallworlds-" + tag, "no_shrink": True,
                                               "what": f"event logs of a world with {'one archetype' if tag in ('E1', 'E2') else '256 archetypes, the documented maximum (harness/rt/src/big256.rs: the world-level iterators must end with None and stay finished; debug builds check arithmetic overflow)' if tag == 'E5' else 'two archetypes (the first with an empty log)'}: expected `{e}`, observed `{g}`"})
        json.dump(res, open(jf, "w"))
        return res


CORPUS = os.path.join(VERIF, "corpus")


def run_corpus(cfgname):
    """Minimised past failures (the shrunk replays of the seeded changes of seeded/, and of the
    defects F1..F4) are kept in /verif/corpus/*.json and run first, under the configuration they
    were found in: model comparison and all oracles, like any other stream."""
    entries = []
    for f in sorted(glob.glob(os.path.join(CORPUS, "*.json"))):
        try:
            d = json.load(open(f))
        except ValueError:
            continue
        if d.get("config") == cfgname and d.get("ops"):
            entries.append((os.path.basename(f)[:-5], d["ops"]))
    if not entries:
        return None
    opsf = os.path.join(tdir(), f"corpus-{cfgname}.ops")
    with open(opsf, "w") as fh:
        for i, (name, ops) in enumerate(entries):
            fh.write(f"seq {i} corpus={name}\n" + "\n".join(ops) + "\n")
    h = hashlib.sha1(open(opsf, "rb").read()).hexdigest()[:8]
    return run_stream(cfgname, "corpus-" + h, 0, len(entries), 0, args=["run", opsf])


CYCLES_EXPECT = {
    False: ["Y1 cycles=4294967294 last_version=4294967295 monotone=1 same_position=1 first_dead=1",
            "Y2 panic SlotOverflow len=1 still_alive=1 wrapping=0",
            "Y3 view=Some(4294967294) iter_count=1"],
    True: ["Y1 cycles=4294967294 last_version=4294967295 monotone=1 same_position=1 first_dead=1",
           "Y2 ok destroyed=1 len=0 still_alive=0 wrapping=1",
           "Y3 next_version=1 equals_first=1 old_max_dead=1 len=1"],
}
CYCLES_WHAT = {
    "Y1": "2^32-2 real create/destroy cycles on one position: every generation is the previous one + 1, no handle is reissued, the first handle stays dead",
    "Y2": "the destroy at generation 2^32-1: without wrapping_version it panics (slot version overflow) and changes nothing; with it, it succeeds",
    "Y3": "after the boundary: without wrapping the entity is intact and iterable; with wrapping the position restarts at generation 1 (the ancient handle may match again, nothing else)",
}


def run_cycles(cfgname):
    """C08/C10/C19 (thorough): the 2^32 generation boundary with REAL cycles, no hook."""
    jf = os.path.join(tdir(), f"cycles-{cfgname}.json")
    with Lock("cycles-" + cfgname):
        if os.path.exists(jf):
            return json.load(open(jf))
        b = build_rt(cfgname)
        wrapping = "w" in cfgname.split("-")[1]
        res = {"key": "cycles-" + cfgname, "config": cfgname, "profile": "cycles", "mismatches": [], "invfails": [],
               "summary": None, "oracle_hits": [], "harness_ok": b["ok"], "lines": []}
        if not b["ok"]:
            res["crashed"] = "harness does not build"
        else:
            t0 = time.time()
            p = subprocess.run([b["bin"], "cycles"], stdout=subprocess.PIPE, stderr=subprocess.PIPE, text=True, env=ENV, timeout=7200)
            got = p.stdout.splitlines()
            res["lines"] = got
            if p.returncode != 0:
                res["crashed"] = f"cycles run exited with {p.returncode}: {p.stderr[-300:]}"
            for e in CYCLES_EXPECT[wrapping]:
                tag = e.split()[0]
                g = next((x for x in got if x.startswith(tag + " ")), None)
                if g != e and not res.get("crashed"):
                    prop = "C08" if tag == "Y1" else ("C19" if wrapping else "C10")
                    res["oracle_hits"].append({"property": prop, "seq": "cycles", "line": 0, "op": "rt cycles", "class": "cycles-" + tag,
                                               "what": f"{CYCLES_WHAT[tag]}: expected `{e}`, observed `{g}`", "no_shrink": True})
            res["wall_s"] = round(time.time() - t0, 2)
        json.dump(res, open(jf, "w"))
        return res


MIRI_PLAN = {
    # property -> [(configuration, profile)]   (Miri ignores optimisation; dbg/rel select debug assertions)
    "C02": [("dbg-none", "query")],
    "C03": [("dbg-none", "forge"), ("rel-ew3", "forge"), ("rel-ew3", "mix")],
    "C04": [("dbg-none", "mix"), ("dbg-none", "clone"), ("rel-ew3", "churn")],
    "C06": [("dbg-none", "query")],
    "C09": [("dbg-none", "churn")],
    "C10": [("dbg-none", "fault"), ("dbg-none", "overflow"), ("rel-ew3", "fault")],
    "C13": [("dbg-none", "clone")],
    "C19": [("dbg-w", "overflow"), ("rel-ew3", "mix")],
}


def run_miri(cfgname, profile, seed, nseq=3, maxops=70):
    """Supporting evidence for the part that is modelled, not verified (raw memory): the harness
    itself, i.e. the real gecs code on generated histories, under Miri.  An error reported by Miri
    is undefined behaviour (or, without injected faults, a leak) of the implementation on a
    concrete history: the last, unfinished line of the trace is the op that triggered it."""
    key = f"miri-{cfgname}-{profile}-{seed}-{nseq}-{maxops}"
    jf = os.path.join(tdir(), key + ".json")
    with Lock(key):
        if os.path.exists(jf):
            return json.load(open(jf))
        prof, feats = CONFIGS[cfgname]
        hdir = os.path.join(VERIF, "harness", "rt")
        target = os.path.join(CACHE, "target-miri")
        cmd = ["cargo", "+nightly", "miri", "run", "--offline"]
        if prof == "release":
            cmd.append("--release")
        if feats:
            cmd += ["--features", ",".join(feats)]
        cmd += ["--", "gen", str(seed), str(nseq), str(maxops), profile]
        flags = "-Zmiri-disable-isolation" + (" -Zmiri-ignore-leaks" if profile == "fault" else "")
        env = dict(ENV, CARGO_TARGET_DIR=target, RUSTFLAGS="--cfg gecs_verif -Awarnings", MIRIFLAGS=flags)
        tf = os.path.join(tdir(), key + ".trace")
        t0 = time.time()
        res = {"key": key, "config": cfgname, "profile": "miri:" + profile, "mismatches": [], "invfails": [], "summary": None,
               "oracle_hits": [], "trace": tf, "miri": True}
        try:
            with Lock("miri-build-" + cfgname):
                pass
            with open(tf, "w") as fh:
                p = subprocess.run(cmd, cwd=hdir, env=env, stdout=fh, stderr=subprocess.PIPE, text=True, timeout=5400)
            err = p.stderr
            res["rc"] = p.returncode
            errs = [l for l in err.splitlines() if l.startswith("error")]
            res["ops"] = sum(1 for l in open(tf, errors="replace") if " => " in l)
            if p.returncode != 0:
                ub = [l for l in errs if "Undefined Behavior" in l or "memory leaked" in l or "unsupported" not in l]
                if not errs or "could not compile" in err or "error: no such command" in err:
                    res["unavailable"] = err[-600:]
                else:
                    seqs = oracles.parse_trace(tf)
                    last = seqs[-1] if seqs else None
                    res["oracle_hits"].append({"property": "*", "seq": last.header if last else "?", "line": 0, "op": (last.lines[-1][4] if last and last.lines else "?"),
                                               "class": "miri", "no_shrink": True, "miri_stderr": err[-3000:],
                                               "what": "Miri reports on the real implementation: " + (ub[0] if ub else errs[0])[:300]})
        except subprocess.TimeoutExpired:
            res["unavailable"] = "timeout"
        res["wall_s"] = round(time.time() - t0, 1)
        json.dump(res, open(jf, "w"))
        return res


def leancheck_all():
    """Thorough tier: Lean's independent re-checker over every compiled module of the project."""
    jf = os.path.join(tdir(), "leanchecker.json")
    with Lock("leanchecker"):
        if os.path.exists(jf):
            return json.load(open(jf))
        lean_build()
        # lean_build() is cached per tree; the lake build directory is shared between trees (a seeded change or
        # another tree's run may have rebuilt some modules from other generated files since), so bring EVERY
        # module up to date for THIS tree before the re-checker reads the compiled files
        with Lock("lake"):
            run_extract()
            rcb, outb = sh(["lake", "build", "Gecs"], cwd=LEAN, timeout=3600)
        if rcb != 0:
            res = {"modules": 0, "failed": [{"module": "lake build Gecs", "rc": rcb, "out": outb[-400:]}], "wall_s": 0}
            json.dump(res, open(jf, "w"))
            return res
        mods = []
        for f in sorted(glob.glob(os.path.join(LEAN, "Gecs", "**", "*.lean"), recursive=True)):
            mods.append(os.path.relpath(f, LEAN)[:-5].replace(os.sep, "."))
        from concurrent.futures import ThreadPoolExecutor
        t0 = time.time()

        def one(m):
            rc, out = sh(["lake", "env", "leanchecker", m], cwd=LEAN, timeout=1800)
            return m, rc, out[-400:]
        with ThreadPoolExecutor(max_workers=8) as ex:
            rs = list(ex.map(one, mods))
        res = {"modules": len(mods), "failed": [{"module": m, "rc": rc, "out": o} for (m, rc, o) in rs if rc != 0], "wall_s": round(time.time() - t0, 1)}
        json.dump(res, open(jf, "w"))
        return res


def seq_stats(trace_path):
    """Distribution facts for the evidence: distinct sequences, non-trivial ones, samples."""
    seqs = oracles.parse_trace(trace_path)
    distinct = set()
    nontrivial = set()
    samples = []
    max_reuse = 0
    for s in seqs:
        ops = [raw for (_, _, _, _, raw) in s.lines]
        h = hashlib.sha1("\n".join(ops).encode()).hexdigest()
        distinct.add(h)
        destroyed_slots = {}
        nt = False
        for (_, op, obs, _, _) in s.lines:
            if op[0] == "destroy" and obs.startswith("some"):
                nt = nt or False
                destroyed_slots["any"] = True
            if op[0] in ("create", "createw") and obs.startswith("e ") and destroyed_slots:
                ver = int(obs.split()[1].split(".")[1])
                if ver > 1:
                    nt = True
                    max_reuse = max(max_reuse, ver - 1)
        if nt:
            nontrivial.add(h)
        if len(samples) < 2:
            samples.append({"seq": s.header, "ops": [f"{raw} => {obs}"[:220] for (_, _, obs, _, raw) in s.lines[:10]]})
    return {"sequences": len(seqs), "distinct": len(distinct), "nontrivial": len(nontrivial),
            "max_generations_stacked": max_reuse, "samples": samples}


# ----------------------------------------------------------------------------- known findings

def known_findings():
    out = []
    if os.path.exists(KNOWN):
        for line in open(KNOWN):
            line = line.strip()
            if line.startswith("finding:"):
                kv = dict(t.split("=", 1) for t in line.split()[1:] if "=" in t and t.split("=")[0] in ("property", "class", "config"))
                kv["text"] = line
                out.append(kv)
    return out


def is_known(hit, cfgname):
    for k in known_findings():
        if k.get("property") == hit["property"] and k.get("class") == hit["class"]:
            pat = k.get("config", "*")
            if pat == "*" or re.fullmatch(pat.replace("*", ".*"), cfgname):
                return k
    return None


# ----------------------------------------------------------------------------- shrinking / replay

def seq_ops(trace_path, seq_header):
    ops = []
    on = False
    for line in open(trace_path, errors="replace"):
        line = line.rstrip("\n")
        if line.startswith("seq "):
            on = (line == seq_header)
            continue
        if on and " => " in line:
            ops.append(line.split(" => ", 1)[0])
    return ops


def run_ops(cfgname, ops, workdir):
    b = build_rt(cfgname)
    f = os.path.join(workdir, "ops.txt")
    with open(f, "w") as fh:
        fh.write("seq 0 replay\n" + "\n".join(ops) + "\n")
    tf = os.path.join(workdir, "ops.trace")
    with open(tf, "w") as fh:
        p = subprocess.run([b["bin"], "run", f], stdout=fh, stderr=subprocess.PIPE, text=True, env=ENV)
    m = run_model(tf)
    hits, _ = oracles.run_oracles(tf)
    hits = hits + invfail_hits(tf, m["invfails"])
    return {"rc": p.returncode, "stderr": p.stderr[-500:], "model": m, "hits": hits, "trace": tf}


def shrink(cfgname, ops, pred, budget_s=60):
    """ddmin over op lines (the first line, `new …`, is kept)."""
    work = os.path.join(tdir(), "shrink-%d" % os.getpid())
    os.makedirs(work, exist_ok=True)
    t0 = time.time()
    head, body = ops[:1], ops[1:]
    n = 2
    while len(body) >= 2 and time.time() - t0 < budget_s:
        chunk = max(1, len(body) // n)
        reduced = False
        for i in range(0, len(body), chunk):
            cand = body[:i] + body[i + chunk:]
            if pred(run_ops(cfgname, head + cand, work)):
                body = cand
                n = max(n - 1, 2)
                reduced = True
                break
        if not reduced:
            if chunk == 1:
                break
            n = min(n * 2, len(body))
    final = run_ops(cfgname, head + body, work)
    trace_text = open(final["trace"], errors="replace").read()
    shutil.rmtree(work, ignore_errors=True)
    return head + body, final, trace_text


def write_replay(prop, name, data):
    os.makedirs(REPLAYS, exist_ok=True)
    path = os.path.join(REPLAYS, f"{prop}-{name}.json")
    json.dump(data, open(path, "w"), indent=1)
    return path


def replay(path):
    data = json.load(open(path))
    prop = data["property"]
    print(f"replaying {path}: property {prop}, kind {data.get('kind')}")
    if str(data.get("kind", "")).startswith("mac") and data.get("case_lines"):
        import engine_more
        rc = engine_more.replay_mac(data)
        if rc:
            print(f"VIOLATION property={prop} replay={path}")
        else:
            print("replay no longer fails")
        return rc
    if data.get("kind") in ("oracle", "correspondence") and data.get("ops"):
        work = os.path.join(tdir(), "replay-%d" % os.getpid())
        os.makedirs(work, exist_ok=True)
        r = run_ops(data["config"], data["ops"], work)
        print(open(r["trace"], errors="replace").read())
        for m in r["model"]["mismatches"] + r["model"]["invfails"]:
            print(m)
        bad = [h for h in r["hits"] if (h["property"] == prop or prop == "C19") and not is_known(h, data["config"])]
        for h in bad:
            print("ORACLE", json.dumps(h))
        shutil.rmtree(work, ignore_errors=True)
        if bad or r["model"]["mismatches"] or r["model"]["invfails"] or r["rc"] != 0:
            print(f"VIOLATION property={prop} replay={path}")
            return 1
        print("replay no longer fails")
        return 0
    kind = data.get("kind")
    cls = data.get("class", "")
    if kind == "boundary" and cls.startswith("smallworlds-"):
        s = run_smallworlds(data["config"])
        for l in s.get("lines", []):
            print(l)
        if [h for h in s.get("oracle_hits", []) if h["class"] == cls] or s.get("crashed"):
            print(f"VIOLATION property={prop} replay={path}")
            return 1
        print("replay no longer fails")
        return 0
    if kind == "boundary" and (cls.startswith("boundary-") or cls.startswith("cycles-") or cls.startswith("shapes-")):
        # re-run the deterministic boundary / 2^32-cycle / shapes program on the current tree
        s = run_boundary(data["config"]) if cls.startswith("boundary-") else (run_cycles(data["config"]) if cls.startswith("cycles-") else run_shapes(data["config"]))
        for l in s.get("lines", []):
            print(l)
        still = [h for h in s.get("oracle_hits", []) if h["class"] == cls] or ([s["crashed"]] if s.get("crashed") else [])
        if still:
            print(f"VIOLATION property={prop} replay={path}")
            return 1
        print("replay no longer fails")
        return 0
    if kind == "miri" and data.get("ops"):
        work = os.path.join(tdir(), "replay-%d" % os.getpid())
        os.makedirs(work, exist_ok=True)
        f = os.path.join(work, "ops.txt")
        open(f, "w").write("seq 0 replay\n" + "\n".join(data["ops"]) + "\n")
        prof, feats = CONFIGS[data["config"]]
        cmd = ["cargo", "+nightly", "miri", "run", "--offline"] + (["--release"] if prof == "release" else []) + (["--features", ",".join(feats)] if feats else []) + ["--", "run", f]
        env = dict(ENV, CARGO_TARGET_DIR=os.path.join(CACHE, "target-miri"), RUSTFLAGS="--cfg gecs_verif -Awarnings", MIRIFLAGS="-Zmiri-disable-isolation")
        p = subprocess.run(cmd, cwd=os.path.join(VERIF, "harness", "rt"), env=env, stdout=subprocess.PIPE, stderr=subprocess.PIPE, text=True)
        print(p.stdout[-3000:])
        print(p.stderr[-3000:])
        shutil.rmtree(work, ignore_errors=True)
        if p.returncode != 0:
            print(f"VIOLATION property={prop} replay={path}")
            return 1
        print("replay no longer fails")
        return 0
    if kind in ("rustc-probe", "e2e-program") and data.get("program"):
        # compile (and, for e2e, run) the single program against the current /repo
        work = os.path.join(CACHE, "replay-crate")
        shutil.rmtree(work, ignore_errors=True)
        os.makedirs(os.path.join(work, "src", "bin"))
        os.makedirs(os.path.join(work, ".cargo"))
        open(os.path.join(work, ".cargo", "config.toml"), "w").write("[net]\noffline = true\n")
        open(os.path.join(work, "Cargo.toml"), "w").write('[package]\nname = "replay"\nversion = "0.0.0"\nedition = "2021"\n\n[workspace]\n\n[dependencies]\ngecs = { path = "/repo", features = ["events"] }\n')
        shutil.copy(os.path.join(REPO, "Cargo.lock"), os.path.join(work, "Cargo.lock"))
        open(os.path.join(work, "src", "bin", "prog.rs"), "w").write(data["program"])
        env = dict(ENV, CARGO_TARGET_DIR=os.path.join(CACHE, "target-probes" if kind == "rustc-probe" else "target-e2e"), RUSTFLAGS="-Awarnings")
        p = subprocess.run(["cargo", "build", "--offline", "--bin", "prog"], cwd=work, env=env, stdout=subprocess.PIPE, stderr=subprocess.STDOUT, text=True)
        print(p.stdout[-2500:])
        compiled = p.returncode == 0
        if kind == "rustc-probe":
            fails = (not compiled) if data.get("must_compile") else compiled      # unsound program: must NOT compile
        else:
            out = []
            if compiled:
                exe = os.path.join(env["CARGO_TARGET_DIR"], "debug", "prog")
                out = subprocess.run([exe], stdout=subprocess.PIPE, text=True).stdout.splitlines()
                for l in out:
                    print(l)
            exp = data.get("expected_output")
            fails = (not compiled and exp is not None) or (exp is not None and out != exp) or (exp is None and compiled and data.get("class") == "e2e-accepted")
        shutil.rmtree(work, ignore_errors=True)
        if fails:
            print(f"VIOLATION property={prop} replay={path}")
            return 1
        print("replay no longer fails")
        return 0
    if kind == "cross-config" and data.get("base"):
        import engine_more
        c = engine_more.cross_config(data["base"], data["other"], data["profile"], data.get("seed", 20260926), data.get("nseq", 30), data.get("maxops", 200))
        for d in c["diffs"][:5]:
            print(json.dumps(d)[:1500])
        if c["diffs"] or c["crashed"]:
            print(f"VIOLATION property={prop} replay={path}")
            return 1
        print("replay no longer fails")
        return 0
    # proof / machinery replays carry no input: re-run the property's quick check on the current tree
    print(json.dumps({k: v for k, v in data.items() if k != "trace"}, indent=1)[:3000])
    print("no input recorded in this replay: re-running the quick check of the property")
    return check(prop, "quick", int(data.get("seed", 20260926)))


# ----------------------------------------------------------------------------- rt properties

# which observation classes a property's theorems talk about (footprint): op kinds whose
# disagreement is charged to the property; "summary" = len/capacity/version part.
RT_PROPS = {
    "C01": dict(profiles=["churn", "mix", "clone", "grow"], ops={"probe", "destroy", "create", "createw", "iterd", "clone", "switch", "todirect", "find", "findb", "new"}, summary=False),
    "C02": dict(profiles=["query", "mix", "clone", "grow"], ops={"probe", "write", "rows", "iter", "iterb", "iterd", "find", "findb", "destroy", "clone", "create", "createw"}, summary=False),
    "C03": dict(profiles=["forge", "mix", "clone"], ops={"forge", "probe", "wbcreate", "wbdirect", "destroy", "find", "findb", "todirect", "write", "dump"}, summary=False),
    "C04": dict(profiles=["mix", "clone", "churn", "query"], ops={"drop", "destroy", "clone", "createw", "create", "iterd"}, summary=False),
    "C06": dict(profiles=["query", "mix", "grow"], ops={"iter", "iterb", "iterds", "rows"}, summary=True),
    "C07": dict(profiles=["query", "mix", "events"], ops={"iterd", "iterds", "probe"}, summary=True),
    "C08": dict(profiles=["churn", "overflow", "grow", "mix", "clone"], ops={"create", "createw", "preset"}, summary=False),
    "C09": dict(profiles=["mix", "query", "churn", "clone"], ops={"todirect", "probe", "iter", "iterb", "iterd", "find", "findb", "destroy", "write"}, summary=True),
    "C12": dict(profiles=["grow", "churn", "mix"], ops={"new", "create", "createw", "destroy", "dump", "iterd"}, summary=True),
    "C13": dict(profiles=["clone", "mix"], ops={"clone", "switch", "probe", "rows", "events", "dump", "drop", "create", "createw", "destroy"}, summary=True),
    "C14": dict(profiles=["forge", "mix", "churn"], ops={"conv", "cmp", "forge", "create", "createw", "todirect"}, summary=False),
    "C17": dict(profiles=["events", "mix", "clone"], ops={"events", "clear"}, summary=False),
    "C11": dict(profiles=["borrow", "mix"], ops={"nest"}, summary=False),
    # C10: everything observed after a panic matters, so every op kind is in the footprint
    "C10": dict(profiles=["fault", "overflow", "borrow"], ops=None, summary=True),
}


def mismatch_parts(line):
    m = re.match(r"(MISMATCH|INVFAIL) seq=(\S+) line=(\d+) op=(.*?) impl=(.*?)( model=(.*))?$", line)
    if not m:
        return None
    op = m.group(4).split()
    impl = m.group(5)
    model = m.group(7) or ""
    iobs, _, isum = impl.partition(" # ")
    mobs, _, msum = model.partition(" # ")
    return {"kind": m.group(1), "seq": m.group(2), "line": int(m.group(3)), "op": op, "obs_differs": iobs != mobs,
            "summary_differs": isum != msum, "raw": line}


def concerns(prop, spec, line):
    p = mismatch_parts(line)
    if p is None:
        return True
    if p["kind"] == "INVFAIL":
        return prop in ("C12", "C01", "C03", "C08", "C10")
    k = p["op"][0] if p["op"] else "?"
    if spec["ops"] is None:
        return True
    if p["obs_differs"] and k in spec["ops"]:
        return True
    if p["summary_differs"] and spec["summary"] and k in spec["ops"]:
        return True
    if k not in set().union(*[s["ops"] for s in RT_PROPS.values() if s["ops"]]):
        return True  # unclassified op kind: charged to everyone
    return False


def tiers(tier):
    if tier == "thorough":
        return dict(configs=list(CONFIGS.keys()), nseq=120, maxops=300, profiles_all=True)
    return dict(configs=QUICK_CONFIGS, nseq=30, maxops=200, profiles_all=False)


def check_rt(prop, tier, seed):
    spec = RT_PROPS[prop]
    t = tiers(tier)
    lean = lean_obligations(prop)
    streams = []
    profiles = ALL_PROFILES if t["profiles_all"] else spec["profiles"]
    if prop == "C17":
        # event logs exist only with the `events` feature: quick = one debug and one release build with it
        cfgs = [c for c in t["configs"] if "events" in CONFIGS[c][1]] if tier == "thorough" else ["dbg-e", "rel-ew3"]
    else:
        cfgs = t["configs"]
    for c in cfgs:
        for pr in profiles:
            streams.append(run_stream(c, pr, seed, t["nseq"], t["maxops"]))
    if prop in ("C12", "C08", "C10"):
        streams.append(run_boundary("rel-ew3"))
    if prop in ("C10", "C17"):
        # the generation-overflow panic with event logs on (events without wrapping_version)
        streams.append(run_stream("dbg-e", "overflow", seed, t["nseq"], t["maxops"]))
    if prop in ("C02", "C03", "C04", "C10", "C07", "C11", "C13", "C14"):
        for c in QUICK_CONFIGS:
            streams.append(run_shapes(c))
    if prop == "C17":
        for c in ("dbg-e", "rel-ew3"):
            streams.append(run_smallworlds(c))
    if prop == "C07":
        # every decision string over {Continue, ContinueDestroy, Break, BreakDestroy} up to length n
        nmax = 6 if tier == "thorough" else 4
        for c in QUICK_CONFIGS:
            streams.append(run_stream(c, f"decs{nmax}", 0, 0, 0, args=["decs", str(nmax)]))
    for c in sorted(set(cfgs) | set(QUICK_CONFIGS)):
        cs = run_corpus(c)
        if cs is not None:
            streams.append(cs)
    extra = thorough_extras(prop, tier, seed, lean, streams)
    return decide(prop, tier, seed, lean, streams, lambda line: concerns(prop, spec, line), extra_cov=extra)


def thorough_extras(prop, tier, seed, lean, streams):
    """leanchecker, the real 2^32-cycle run and the Miri subset (thorough tier only)."""
    if tier != "thorough":
        return None
    extra = {}
    lc = leancheck_all()
    extra["leanchecker"] = {"modules_rechecked": lc["modules"], "failed": lc["failed"], "wall_s": lc["wall_s"]}
    for f in lc["failed"]:
        lean["broken"].append(f"leanchecker rejects {f['module']}")
    if prop in ("C08", "C10"):
        streams.append(run_cycles("rel-none"))
    if prop == "C19":
        for c in ("rel-none", "rel-w", "dbg-w"):
            streams.append(run_cycles(c))
    miri = []
    from concurrent.futures import ThreadPoolExecutor
    plan = MIRI_PLAN.get(prop, [])
    if plan:
        with ThreadPoolExecutor(max_workers=4) as ex:
            for r in ex.map(lambda cp: run_miri(cp[0], cp[1], seed), plan):
                for h in r["oracle_hits"]:
                    if h["property"] == "*":
                        h["property"] = prop
                streams.append(r)
                miri.append({"config": r["config"], "profile": r["profile"], "ops": r.get("ops"), "rc": r.get("rc"), "unavailable": r.get("unavailable"), "wall_s": r.get("wall_s")})
    extra["miri_runs"] = miri
    cyc = [s for s in streams if s.get("profile") == "cycles"]
    if cyc:
        extra["real_2^32_cycle_runs"] = [{"config": s["config"], "lines": s.get("lines"), "wall_s": s.get("wall_s")} for s in cyc]
    return extra


MEMSAFE_PROPS = ("C03", "C04", "C10", "C19")


def memsafe_applies(prop, h):
    """A harness process killed by a signal is a concrete failing history for the properties that
    state memory safety, and for any property whose footprint contains the operation that was
    running (the history cannot be executed at all there)."""
    if prop in MEMSAFE_PROPS:
        return True
    spec = RT_PROPS.get(prop)
    kind = (str(h.get("op", "")).split() or ["?"])[0]
    return bool(spec) and (spec["ops"] is None or kind in spec["ops"])


def decide(prop, tier, seed, lean, streams, concerns_fn, extra_cov=None, t0=None):
    t0 = t0 or START
    violations = []
    known_lines = []
    # 1. oracle hits on implementation traces: the property itself is false there
    for s in streams:
        for h in s.get("oracle_hits", []):
            if h["property"] == "MEMSAFE":
                # memory safety is part of what these properties state
                if not memsafe_applies(prop, h):
                    continue
                h = dict(h, property=prop)
            if h["property"] != prop and prop != "C19":
                continue
            k = is_known(h, s["config"])
            if k:
                msg = "KNOWN-FINDING: " + k['text'].split(' ', 1)[1]
                if msg not in known_lines:
                    known_lines.append(msg)
                continue
            violations.append(("oracle", s, h))
            break
    # 2. broken tie
    broken_tie = []
    for s in streams:
        if s.get("crashed"):
            broken_tie.append(("crash", s, s["crashed"]))
        # only the FIRST disagreement of a sequence is a root cause (model and implementation are in
        # different states afterwards, later lines are consequences)
        firsts, seen_seq = [], set()
        for line in sorted(s.get("mismatches", []) + s.get("invfails", []), key=lambda l: int((re.search(r" line=(\d+)", l) or [0, 0])[1])):
            mm = re.match(r"(MISMATCH|INVFAIL) seq=(\S+)", line)
            sq = mm.group(2) if mm else "?"
            if sq not in seen_seq:
                seen_seq.add(sq)
                firsts.append(line)
        for line in firsts:
            if concerns_fn(line):
                broken_tie.append(("mismatch", s, line))
                break
        # the model reaching `ub` always shows as a disagreement on that line (handled above, with the
        # root-cause rule); it is charged separately only if no line-level disagreement exists
        if s.get("summary") and s["summary"].get("model_ub", "0") != "0" and not s.get("mismatches"):
            broken_tie.append(("model-ub", s, "the model reached undefined behaviour while replaying the implementation trace"))
    # 3. broken proof obligations
    broken_proof = list(lean["broken"])

    for l in known_lines:
        print(l)
    rc = 0
    replay_path = None
    if violations and violations[0][2].get("no_shrink"):
        kind, s, h = violations[0]
        data = {"property": prop, "kind": "boundary" if not s.get("miri") else "miri", "config": s["config"], "what": h["what"], "class": h["class"],
                "how": "harness/rt `rt boundary` / `rt cycles` on the real implementation, compared with the closed forms of the theorems", "observed": s.get("lines")}
        if s.get("miri"):
            data["how"] = "cargo +nightly miri run on harness/rt (the real gecs code) with the generated history below; the last op is the one during which Miri stopped"
            data["ops"] = seq_ops(s["trace"], h["seq"])
            data["miri_stderr"] = h.get("miri_stderr", "")[-2500:]
        replay_path = write_replay(prop, "oracle-" + h["class"], data)
        print(f"VIOLATION property={prop} replay={replay_path}")
        rc = 1
    elif violations:
        kind, s, h = violations[0]
        ops = seq_ops(s["trace"], h["seq"])
        cfg = s["config"]
        pred = lambda r: any((x["property"] == prop or prop == "C19") and x["class"] == h["class"] for x in r["hits"])
        if h["class"] == "crash-signal":
            pred = lambda r: r["rc"] < 0
        what = h["what"]
        try:
            small, final, trace_text = shrink(cfg, ops, pred)
            # describe the failure as it shows on the SHRUNK sequence
            what = next((x["what"] for x in final["hits"] if (x["property"] == prop or prop == "C19") and x["class"] == h["class"]), what)
        except Exception as e:  # noqa
            small, trace_text = ops, ""
        replay_path = write_replay(prop, "oracle-" + h["class"], {
            "property": prop, "kind": "oracle", "config": cfg, "seed": seed, "profile": s["profile"],
            "what": what, "class": h["class"], "ops": small, "trace": trace_text.splitlines()})
        print(f"VIOLATION property={prop} replay={replay_path}")
        rc = 1
    elif broken_tie or broken_proof:
        # search for a failing input: the oracles already ran over every stream of this run;
        # widen the search with the thorough budget before giving up
        found = None
        if tier != "thorough" and prop in RT_PROPS:
            for c in QUICK_CONFIGS:
                for pr in ALL_PROFILES:
                    s2 = run_stream(c, pr, seed + 1, 120, 300)
                    for h in s2.get("oracle_hits", []):
                        if h["property"] == "MEMSAFE" and memsafe_applies(prop, h):
                            h = dict(h, property=prop)
                        if h["property"] == prop and not is_known(h, c):
                            found = (s2, h)
                            break
                    if found:
                        break
                if found:
                    break
        if found:
            s, h = found
            ops = seq_ops(s["trace"], h["seq"])
            pred = lambda r: any(x["property"] == prop and x["class"] == h["class"] for x in r["hits"])
            if h["class"] == "crash-signal":
                pred = lambda r: r["rc"] < 0
            small, final, trace_text = shrink(s["config"], ops, pred)
            replay_path = write_replay(prop, "oracle-" + h["class"], {
                "property": prop, "kind": "oracle", "config": s["config"], "seed": seed, "profile": s["profile"],
                "what": h["what"], "class": h["class"], "ops": small, "trace": trace_text.splitlines()})
            print(f"VIOLATION property={prop} replay={replay_path}")
        else:
            data = {"property": prop, "kind": "proof" if broken_proof and not broken_tie else "correspondence",
                    "seed": seed, "broken_obligations": broken_proof,
                    "broken_correspondence": [{"kind": k, "config": s["config"], "profile": s.get("profile"), "detail": str(d)[:3000]} for (k, s, d) in broken_tie[:5]],
                    "note": "no concrete input violating the property itself was found within the search budget; the property is no longer shown to hold"}
            if broken_tie and broken_tie[0][0] == "crash" and broken_tie[0][1].get("trace") and broken_tie[0][1].get("harness_rc"):
                # the harness process died: the last sequence of its trace ends with the op that
                # killed it (ops are flushed before they run); shrink that sequence on "still dies"
                k, s, d = broken_tie[0]
                try:
                    hdrs = [x.header for x in oracles.parse_trace(s["trace"])]
                    ops = seq_ops(s["trace"], hdrs[-1])
                    pred = lambda r: r["rc"] != 0
                    small, final, trace_text = shrink(s["config"], ops, pred)
                    if final["rc"] != 0:
                        data.update({"config": s["config"], "ops": small, "trace": trace_text.splitlines()[-40:],
                                     "crash": {"exit_code": final["rc"], "stderr": final["stderr"][-600:]},
                                     "how": "harness/rt `rt run` on these ops exits abnormally (the implementation aborts or an internal assertion fails outside any guarded call)"})
                except Exception as e:  # noqa
                    data["shrink_error"] = repr(e)
            elif broken_tie and broken_tie[0][0] == "mismatch":
                k, s, line = broken_tie[0]
                p = mismatch_parts(line)
                try:
                    ops = seq_ops(s["trace"], next(x.header for x in oracles.parse_trace(s["trace"]) if x.header.split()[1] == p["seq"]))
                    pred = lambda r: any(concerns_fn(l) for l in r["model"]["mismatches"] + r["model"]["invfails"])
                    small, final, trace_text = shrink(s["config"], ops, pred)
                    data.update({"config": s["config"], "ops": small, "trace": trace_text.splitlines(),
                                 "first_disagreement": final["model"]["mismatches"][:2] + final["model"]["invfails"][:2]})
                except Exception as e:  # noqa
                    data["shrink_error"] = repr(e)
            replay_path = write_replay(prop, "unproved", data)
            print(f"VIOLATION property={prop} replay={replay_path} no-failing-input-found")
        rc = 1
    write_evidence(prop, tier, seed, lean, streams, rc, known_lines, extra_cov, t0)
    if rc == 0:
        print(f"PASS property={prop} tier={tier} obligations={lean['discharged']}/{lean['obligations']} "
              f"streams={len(streams)} ops={sum(int((s.get('summary') or {}).get('ops', 0)) for s in streams)}")
    return rc


def write_evidence(prop, tier, seed, lean, streams, rc, known_lines, extra_cov, t0):
    os.makedirs(EVID, exist_ok=True)
    ops = sum(int((s.get("summary") or {}).get("ops", 0)) for s in streams)
    seqs = sum((s.get("seq_stats") or {}).get("sequences", 0) for s in streams)
    nontrivial = sum((s.get("seq_stats") or {}).get("nontrivial", 0) for s in streams)
    kinds = {}
    for s in streams:
        ks = (s.get("summary") or {}).get("kinds", "")
        for kv in ks.split(","):
            if ":" in kv:
                k, v = kv.split(":")
                kinds[k] = kinds.get(k, 0) + int(v)
    samples = []
    for s in streams[:2]:
        samples += (s.get("seq_stats") or {}).get("samples", [])[:1]
    for n in lean.get("names", [])[:6]:
        samples.append({"obligation": n, "axioms": lean["axioms"].get(n)})
    cov = {
        "obligations": lean["obligations"], "discharged": lean["discharged"],
        "checker_cmd": lean["checker_cmd"], "trusted_base": TRUSTED_BASE,
        "theorems": lean.get("names", []), "axioms_per_theorem": lean["axioms"],
        "broken_obligations": lean["broken"],
        "evaluations": ops, "traces_validated_against_impl": seqs,
        "distinct_nontrivial": nontrivial,
        "rule": "sequences are generated by harness/rt (profile/weight based, seeded from VERIF_SEED); distinct = distinct operation lists; non-trivial = contains a create that reuses a position released earlier in the same sequence (generation > 1)",
        "samples": samples or [{"note": "no stream for this property"}],
        "configs": sorted(set(s["config"] for s in streams)),
        "profiles": sorted(set(s.get("profile", "") for s in streams)),
        "op_kind_counts": kinds,
        "model_vs_impl_disagreements": sum(len(s.get("mismatches", [])) for s in streams),
        "impl_vs_oracle_failures": sum(1 for s in streams for h in s.get("oracle_hits", []) if h["property"] == prop),
        "invariant_failures_on_impl_dumps": sum(len(s.get("invfails", [])) for s in streams),
        "dumps_checked": sum(int((s.get("summary") or {}).get("dumps", 0)) for s in streams),
        "growth_steps": sum(int((s.get("summary") or {}).get("growths", 0)) for s in streams),
        "max_generations_stacked": max([(s.get("seq_stats") or {}).get("max_generations_stacked", 0) for s in streams] or [0]),
        "known_findings_reported": known_lines,
    }
    if extra_cov:
        cov.update(extra_cov)
    ev = {"property_id": prop, "tier": tier, "seed": seed, "level": "proof", "coverage": cov,
          "assumptions": TRUSTED_BASE, "wall_s": round(time.time() - t0, 2), "violations": 1 if rc else 0}
    json.dump(ev, open(os.path.join(EVID, prop + ".json"), "w"), indent=1)


START = time.time()


def check(prop, tier, seed):
    try:
        return check_inner(prop, tier, seed)
    except Exception:  # noqa: the machinery itself failed: the property is not shown to hold
        import traceback
        tb = traceback.format_exc()
        path = write_replay(prop, "unproved", {"property": prop, "kind": "machinery-error", "traceback": tb[-4000:],
                                               "note": "the check could not be completed on this tree; the property is no longer shown to hold"})
        print(f"VIOLATION property={prop} replay={path} no-failing-input-found")
        try:
            lean = {"obligations": 1, "discharged": 0, "checker_cmd": "n/a", "axioms": {}, "broken": ["machinery error"], "names": []}
            write_evidence(prop, tier, seed, lean, [], 1, [], {"machinery_error": tb[-1500:]}, START)
        except Exception:  # noqa
            pass
        return 1


def check_inner(prop, tier, seed):
    global START
    START = time.time()
    os.makedirs(CACHE, exist_ok=True)
    if prop in RT_PROPS:
        return check_rt(prop, tier, seed)
    try:
        import engine_more
        if prop in engine_more.HANDLERS:
            return engine_more.HANDLERS[prop](prop, tier, seed)
    except ImportError:
        pass
    print(f"unknown or unclaimed property {prop}")
    return 2


def setup():
    """MANIFEST.setup_cmd: build everything once from files on disk."""
    os.makedirs(CACHE, exist_ok=True)
    r = lean_build()
    log(f"lean build ok={r['ok']} ({r['wall_s']} s)")
    for c in QUICK_CONFIGS:
        b = build_rt(c)
        log(f"harness {c} ok={b['ok']} ({b['wall_s']} s)")
    try:
        import engine_more
        engine_more.setup()
    except ImportError:
        pass
    return 0 if r["ok"] else 1
